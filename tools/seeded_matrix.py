#!/usr/bin/env python3
"""For every /verif/seeded/<id>: re-verify (applies to HEAD, pinned tests green with it, demo fails with / passes without) and run the
target property's quick check against it in a scratch worktree.  Writes the result into each meta.json and seeded/MATRIX.json."""
import json, os, subprocess, sys
root = '/verif/seeded'
only = sys.argv[1:]
matrix = {}
if os.path.exists(root + '/MATRIX.json'):
    matrix = json.load(open(root + '/MATRIX.json'))
for d in sorted(os.listdir(root)):
    p = os.path.join(root, d)
    if not os.path.isdir(p) or (only and d not in only):
        continue
    meta = json.load(open(p + '/meta.json'))
    v = json.loads(subprocess.run(['python3', '/verif/tools/verify_seeded.py', p], stdout=subprocess.PIPE, text=True).stdout.strip().splitlines()[-1])
    prop = meta['breaks_property']
    extra = meta.get('also_run', [])
    res = {}
    for c in [prop] + extra:
        r = subprocess.run(['python3', '/verif/tools/mutant.py', p + '/patch.diff', c], stdout=subprocess.PIPE, text=True).stdout
        rc = [l for l in r.splitlines() if l.startswith('== ')]
        first = [l.strip() for l in r.splitlines() if 'stage=' in l][:1]
        res[c] = {'rc': int(rc[0].split('rc=')[1]) if rc else None, 'first_rejection': first[0][:400] if first else ''}
    meta['verified'] = {k: v.get(k) for k in ('applies', 'baseline_green_with', 'demo_fails_with', 'demo_passes_without')}
    meta['what_was_run'] = ['tools/verify_seeded.py %s  (scratch worktree of /repo HEAD: git apply, tools/baseline_check.py, demo.py with and without the change)' % p,
                            'tools/mutant.py %s/patch.diff %s  (scratch worktree + VERIF_REPO_DIR; quick tier)' % (p, ' '.join([prop] + extra))]
    meta['checks'] = res
    json.dump(meta, open(p + '/meta.json', 'w'), indent=1)
    matrix[d] = {'verified': all(meta['verified'].values()), 'checks': {k: x['rc'] for k, x in res.items()}}
    print(d, matrix[d], flush=True)
    json.dump(matrix, open(root + '/MATRIX.json', 'w'), indent=1, sort_keys=True)
