#!/usr/bin/env python3
"""Run the pinned test suite in a tree (default /repo) and compare with BASELINE.json stable_pass.
usage: baseline_check.py [TREE]   -> exit 0 iff every stable_pass test passes."""
import json, os, subprocess, sys, tempfile, xml.etree.ElementTree as ET
tree = sys.argv[1] if len(sys.argv) > 1 else '/repo'
base = json.load(open('/root/.vp/BASELINE.json'))
want = set(base['stable_pass'])
fd, xml = tempfile.mkstemp(suffix='.xml'); os.close(fd)
env = dict(os.environ); env.pop('PJRPC_VERIF', None); env['PYTHONPATH'] = tree; env['PYTHONDONTWRITEBYTECODE'] = '1'
subprocess.run(['/venv/bin/python', '-m', 'pytest', '-q', '-p', 'no:cacheprovider', '--timeout=900',
                '--continue-on-collection-errors', '--junitxml=' + xml], cwd=tree, env=env,
               stdout=subprocess.DEVNULL, stderr=subprocess.DEVNULL)
passed = set()
for tc in ET.parse(xml).getroot().iter('testcase'):
    if not any(c.tag in ('failure', 'error', 'skipped') for c in tc):
        passed.add(f"{tc.get('classname')}::{tc.get('name')}")
os.unlink(xml)
missing = sorted(want - passed)
print(f"stable_pass={len(want)} passed_now={len(want & passed)} missing={len(missing)}")
for m in missing[:40]:
    print("  NOT PASSING:", m)
sys.exit(1 if missing else 0)
