#!/usr/bin/env python3
"""patch applies to /repo HEAD in a scratch worktree and the pinned tests stay green.  usage: verify_benign.py DIR"""
import json, os, shutil, subprocess, sys, tempfile
d = os.path.abspath(sys.argv[1])
wt = tempfile.mkdtemp(prefix='benwt_'); os.rmdir(wt)
def sh(*a, **k):
    return subprocess.run(list(a), stdout=subprocess.PIPE, stderr=subprocess.STDOUT, text=True, **k)
assert sh('git', '-C', '/repo', 'worktree', 'add', '-q', '--detach', wt, 'HEAD').returncode == 0
res = {}
try:
    r = sh('git', '-C', wt, 'apply', os.path.join(d, 'patch.diff'))
    res['applies'] = r.returncode == 0
    if res['applies']:
        res['baseline_green_with'] = sh('python3', '/verif/tools/baseline_check.py', wt).returncode == 0
finally:
    sh('git', '-C', '/repo', 'worktree', 'remove', '--force', wt); shutil.rmtree(wt, ignore_errors=True)
print(json.dumps(res))
