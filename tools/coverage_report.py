#!/usr/bin/env python3
"""Which lines / branches of pjrpc do the drivers of the quick checks execute?  (A line no driver executes cannot be guarded by any
check.)  usage: coverage_report.py [Cxx ...]   -> prints the per-file report with missing lines; data under /tmp (removed)."""
import os, shutil, subprocess, sys, tempfile
checks = sys.argv[1:] or ['C%02d' % i for i in range(1, 21)]
d = tempfile.mkdtemp(prefix='verifcov_')
out = tempfile.mkdtemp(prefix='verifcovout_')
env = dict(os.environ, VERIF_COVERAGE=d, VERIF_OUT_DIR=out)
for c in checks:
    p = subprocess.run(['/verif/check', c, '--tier', 'quick'], cwd='/verif', env=env, stdout=subprocess.PIPE, stderr=subprocess.STDOUT, text=True)
    print(c, 'rc=%d' % p.returncode, flush=True)
subprocess.run(['/venv/bin/python', '-m', 'coverage', 'combine', '--data-file', d + '/.coverage', d], cwd=d, stdout=subprocess.DEVNULL)
r = subprocess.run(['/venv/bin/python', '-m', 'coverage', 'report', '--data-file', d + '/.coverage', '-m', '--skip-empty'], cwd='/repo', stdout=subprocess.PIPE, text=True)
print(r.stdout)
shutil.rmtree(d, ignore_errors=True); shutil.rmtree(out, ignore_errors=True)
