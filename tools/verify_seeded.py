#!/usr/bin/env python3
"""Re-verify a seeded change against the CURRENT /repo HEAD in a scratch worktree:
   patch applies, pinned tests green with it, demo fails with it and passes without it.
usage: verify_seeded.py DIR   (DIR contains patch.diff and demo.py)   prints a JSON verdict"""
import json, os, shutil, subprocess, sys, tempfile
d = os.path.abspath(sys.argv[1])
wt = tempfile.mkdtemp(prefix='seedwt_'); os.rmdir(wt)
def sh(*a, **k):
    return subprocess.run(list(a), stdout=subprocess.PIPE, stderr=subprocess.STDOUT, text=True, **k)
assert sh('git', '-C', '/repo', 'worktree', 'add', '-q', '--detach', wt, 'HEAD').returncode == 0
res = {'dir': d}
try:
    env = dict(os.environ, PYTHONPATH=wt, PYTHONDONTWRITEBYTECODE='1')
    p0 = sh('/venv/bin/python', os.path.join(d, 'demo.py'), env=env, cwd=d, timeout=600)
    res['demo_passes_without'] = p0.returncode == 0
    r = sh('git', '-C', wt, 'apply', os.path.join(d, 'patch.diff'))
    res['applies'] = r.returncode == 0
    if r.returncode != 0:
        res['apply_error'] = r.stdout[:300]
    else:
        b = sh('python3', '/verif/tools/baseline_check.py', wt)
        res['baseline_green_with'] = b.returncode == 0
        p1 = sh('/venv/bin/python', os.path.join(d, 'demo.py'), env=env, cwd=d, timeout=600)
        res['demo_fails_with'] = p1.returncode != 0
        res['demo_output_tail'] = p1.stdout.strip().splitlines()[-1][:200] if p1.stdout.strip() else ''
finally:
    sh('git', '-C', '/repo', 'worktree', 'remove', '--force', wt); shutil.rmtree(wt, ignore_errors=True)
print(json.dumps(res))
