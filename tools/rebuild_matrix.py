#!/usr/bin/env python3
"""Rebuild seeded/MATRIX.json from the per-change meta.json files (the matrix tool may have run in several processes at once)."""
import json, os
root = '/verif/seeded'
matrix = {}
for d in sorted(os.listdir(root)):
    p = os.path.join(root, d, 'meta.json')
    if not os.path.exists(p):
        continue
    meta = json.load(open(p))
    if 'checks' not in meta or 'verified' not in meta:
        continue
    matrix[d] = {'verified': all(meta['verified'].values()), 'checks': {k: x['rc'] for k, x in meta['checks'].items()}}
json.dump(matrix, open(root + '/MATRIX.json', 'w'), indent=1, sort_keys=True)
print(len(matrix), 'entries;', sum(1 for v in matrix.values() if not any(rc == 1 for rc in v['checks'].values())), 'without rc=1')
