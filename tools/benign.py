#!/usr/bin/env python3
"""Behaviour-preserving changes (written by independent sub-agents from the property texts only): every check whose property is
anchored in a touched file must stay quiet (exit 0, no VIOLATION).  usage: benign.py [ID ...]   (ids under seeded/benign/;
BENIGN_MAX_CHECKS=n runs only the first n of the relevant checks)"""
import json, os, re, subprocess, sys
root = '/verif/seeded/benign'
BY_FILE = [('pjrpc/server/dispatcher.py', ['C01', 'C02', 'C03', 'C04', 'C10', 'C12', 'C13', 'C15']),
           ('pjrpc/common/', ['C05', 'C06', 'C01', 'C08', 'C07', 'C03']),
           ('pjrpc/client/client.py', ['C07', 'C08', 'C09', 'C19']),
           ('pjrpc/client/retry.py', ['C09', 'C19']),
           ('pjrpc/server/validators', ['C04', 'C14', 'C13', 'C17']),
           ('pjrpc/server/specs', ['C16', 'C17']),
           ('pjrpc/server/integration', ['C18', 'C16']),
           ('pjrpc/client/integrations/pytest.py', ['C20']),
           ('pjrpc/client/backend', ['C11'])]
only = sys.argv[1:]
res_path = root + '/RESULTS.json'
results = json.load(open(res_path)) if os.path.exists(res_path) else {}
for d in sorted(os.listdir(root)):
    p = os.path.join(root, d)
    if not os.path.isdir(p) or (only and d not in only):
        continue
    patch = open(p + '/patch.diff').read()
    files = re.findall(r'^\+\+\+ b/(\S+)', patch, re.M)
    checks = []
    for pre, cs in BY_FILE:
        if any(f.startswith(pre) for f in files):
            checks += [c for c in cs if c not in checks]
    checks = checks[:int(os.environ.get('BENIGN_MAX_CHECKS', '99'))]
    b = subprocess.run(['python3', '/verif/tools/verify_benign.py', p], stdout=subprocess.PIPE, text=True).stdout.strip().splitlines()[-1]
    r = subprocess.run(['python3', '/verif/tools/mutant.py', p + '/patch.diff'] + checks, stdout=subprocess.PIPE, text=True).stdout
    rcs = dict(re.findall(r'^== (C\d\d) rc=(\d+)', r, re.M))
    results[d] = {'files': files, 'baseline': json.loads(b), 'checks': {k: int(v) for k, v in rcs.items()}}
    print(d, results[d]['baseline'], results[d]['checks'], flush=True)
    if any(int(v) != 0 for v in rcs.values()):
        print(r[-3000:], flush=True)
    json.dump(results, open(res_path, 'w'), indent=1, sort_keys=True)
