#!/usr/bin/env python3
"""Rewrites the generated tables of DESIGN.md (between <!-- BEGIN x --> / <!-- END x --> markers) from
seeded/MATRIX.json + seeded/*/meta.json and evidence/*.json."""
import json, os, re
V = '/verif'
design = open(V + '/DESIGN.md').read()

def block(name, text):
    global design
    b, e = '<!-- BEGIN %s -->' % name, '<!-- END %s -->' % name
    if b not in design:
        design = design.rstrip('\n') + '\n\n%s\n%s\n' % (b, e)
    design = re.sub(re.escape(b) + r'.*?' + re.escape(e), lambda m: b + '\n' + text.rstrip('\n') + '\n' + e, design, flags=re.S)

# ---- seeded changes
rows = ['| change | breaks | what it is / what it needs to manifest | verified (applies, suite green, demo fails with / passes without) | target check (quick) | first run | strengthening it caused |',
        '|---|---|---|---|---|---|---|']
mat = json.load(open(V + '/seeded/MATRIX.json')) if os.path.exists(V + '/seeded/MATRIX.json') else {}
for d in sorted(os.listdir(V + '/seeded')):
    p = os.path.join(V, 'seeded', d, 'meta.json')
    if not os.path.exists(p):
        continue
    m = json.load(open(p))
    what = ' '.join(m['what_it_needs_to_manifest_and_why'].split())[:330]
    ver = m.get('verified', {})
    chk = m.get('checks', {})
    res = ', '.join('%s: %s' % (k, {1: 'VIOLATION (caught)', 0: 'passed (MISSED)', 2: 'machinery failure'}.get(v.get('rc'), v.get('rc'))) for k, v in chk.items())
    first = m.get('first_run_before_strengthening')
    rows.append('| %s%s | %s | %s | %s | %s | %s | %s |' % (d, ' (ported)' if m.get('ported') else '', m['breaks_property'], what.replace('|', '/'),
                'yes' if ver and all(ver.values()) else str(ver), res or 'not run yet',
                '' if first is None else ('caught' if first.get('caught') else ('strengthened before the first run' if first.get('caught') is None else 'missed')), m.get('strengthening_made_because_of_it', '')))
block('SEEDED', '\n'.join(rows))

# ---- evidence
rows = ['| property | tier | TLC states | transitions | traces validated against the implementation | distinct non-trivial | known findings hit | wall s |', '|---|---|---|---|---|---|---|---|']
for f in sorted(os.listdir(V + '/evidence')):
    e = json.load(open(os.path.join(V, 'evidence', f)))
    c = e['coverage']
    rows.append('| %s | %s | %s | %s | %s | %s | %s | %s |' % (e['property_id'], e['tier'], c.get('states'), c.get('transitions'), c.get('traces_validated_against_impl'),
                c.get('distinct_nontrivial'), ', '.join('%s x%s' % kv for kv in c.get('known_findings_hit', {}).items()) or '-', e['wall_s']))
block('EVIDENCE', '\n'.join(rows))
# ---- what each check enumerates (the `rule` strings the checks put into their evidence)
import sys
sys.path.insert(0, V)
from mbt import props
lines = []
for p in sorted(props.CHECKS):
    q = props.CHECKS[p]('quick', 0)
    t = props.CHECKS[p]('thorough', 0) if p != 'C09' else None
    lines.append('**%s** - stages: %s.' % (p, ', '.join('`%s`' % st.name for st in q['stages'])))
    lines.append('quick: ' + q['rule'])
    if t and t['rule'] != q['rule']:
        lines.append('')
        lines.append('thorough: ' + t['rule'] + (' (plus the same scenarios with randomised class representatives)' if any(st.name.endswith('_rand') for st in t['stages']) else ''))
    lines.append('')
block('RULES', '\n'.join(lines))
open(V + '/DESIGN.md', 'w').write(design)
print('tables written')
