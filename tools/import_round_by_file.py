#!/usr/bin/env python3
"""Import a round whose sub-agents were assigned a PART OF THE SOURCE (DIR/Fnn_out/{a,b,c}/patch.diff, demo.py, notes.md with a first
line `PROPERTY: Cxx`).  usage: import_round_by_file.py DIR ROUND"""
import json, os, re, shutil, sys
src, rnd = sys.argv[1], int(sys.argv[2])
for d in sorted(os.listdir(src)):
    if not (d.startswith('F') and d.endswith('_out')):
        continue
    for k in sorted(os.listdir(os.path.join(src, d))):
        p = os.path.join(src, d, k)
        if not (os.path.exists(p + '/patch.diff') and os.path.exists(p + '/demo.py') and os.path.exists(p + '/notes.md')):
            continue
        notes = open(p + '/notes.md').read()
        m = re.search(r'PROPERTY:\s*(C\d\d)', notes)
        if not m:
            print('no property line in', p); continue
        prop = m.group(1)
        dst = '/verif/seeded/%s-r%d%s%s' % (prop, rnd, d[:3], k)
        if os.path.exists(dst):
            continue
        os.makedirs(dst)
        for f in ('patch.diff', 'demo.py', 'notes.md'):
            shutil.copy(os.path.join(p, f), dst)
        json.dump({'id': os.path.basename(dst), 'breaks_property': prop, 'round': rnd,
                   'source': 'independent sub-agent (round %d: assigned a part of the source and all 20 property records, free to choose the property) with a scratch worktree' % rnd,
                   'ported': False, 'what_it_needs_to_manifest_and_why': notes[:1800]}, open(dst + '/meta.json', 'w'), indent=1)
        print('imported', dst)
