#!/usr/bin/env python3
"""Apply a seeded change to /repo, run checks, undo it.   usage: seeded.py PATCH [--tier T] Cxx [Cyy ...]
Prints, per check, the exit code and the VIOLATION / KNOWN-FINDING / MACHINERY lines."""
import subprocess, sys
args = sys.argv[1:]
patch = args.pop(0)
tier = 'quick'
if args and args[0] == '--tier':
    args.pop(0); tier = args.pop(0)
def git(*a, check=True):
    return subprocess.run(['git', '-C', '/repo'] + list(a), stdout=subprocess.PIPE, stderr=subprocess.STDOUT, text=True, check=check)
assert git('status', '--porcelain', '--untracked-files=no').stdout.strip() == '', '/repo is dirty'
r = git('apply', patch, check=False)
if r.returncode != 0:
    r = git('apply', '--3way', patch, check=False)
    if r.returncode != 0:
        print('PATCH DOES NOT APPLY:', r.stdout[:300]); git('reset', '-q', '--hard', 'HEAD'); sys.exit(3)
try:
    for c in args:
        p = subprocess.run(['/verif/check', c, '--tier', tier], cwd='/verif', stdout=subprocess.PIPE, stderr=subprocess.STDOUT, text=True)
        lines = [l for l in p.stdout.splitlines() if l.startswith(('VIOLATION', 'KNOWN', 'MACHINERY', '  stage='))]
        print('== %s rc=%d' % (c, p.returncode))
        for l in lines[:8]:
            print('   ', l[:400])
        if p.returncode == 2:
            print(p.stdout[-1500:])
finally:
    git('reset', '-q', '--hard', 'HEAD')
    assert git('status', '--porcelain', '--untracked-files=no').stdout.strip() == ''
