#!/usr/bin/env python3
"""Import the output of a round of independent sub-agents (DIR/Cxx_out/{a,b}/patch.diff, demo.py, notes.md) into seeded/.
usage: import_round.py DIR ROUND [Cxx ...]"""
import json, os, shutil, sys
src, rnd = sys.argv[1], int(sys.argv[2])
only = sys.argv[3:]
for d in sorted(os.listdir(src)):
    if not d.endswith('_out') or not d.startswith('C') or (only and d[:3] not in only):
        continue
    prop = d[:3]
    for k in sorted(os.listdir(os.path.join(src, d))):
        p = os.path.join(src, d, k)
        if not os.path.exists(p + '/patch.diff') or not os.path.exists(p + '/demo.py'):
            continue
        dst = '/verif/seeded/%s-r%d%s' % (prop, rnd, k)
        if os.path.exists(dst):
            continue
        os.makedirs(dst)
        for f in ('patch.diff', 'demo.py', 'notes.md'):
            if os.path.exists(os.path.join(p, f)):
                shutil.copy(os.path.join(p, f), dst)
        notes = open(p + '/notes.md').read() if os.path.exists(p + '/notes.md') else ''
        json.dump({'id': os.path.basename(dst), 'breaks_property': prop, 'round': rnd,
                   'source': 'independent sub-agent (round %d, against the tree with the fix: commits) given only the property text and a scratch worktree' % rnd,
                   'ported': False, 'what_it_needs_to_manifest_and_why': notes[:1800]}, open(dst + '/meta.json', 'w'), indent=1)
        print('imported', dst)
