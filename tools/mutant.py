#!/usr/bin/env python3
"""Run checks against a seeded change WITHOUT touching /repo: scratch worktree + VERIF_REPO_DIR.
usage: mutant.py PATCH [--tier T] Cxx [Cyy ...]      (prints rc and VIOLATION / KNOWN lines per check)"""
import os, shutil, subprocess, sys, tempfile
args = sys.argv[1:]
patch = os.path.abspath(args.pop(0))
tier = 'quick'
if args and args[0] == '--tier':
    args.pop(0); tier = args.pop(0)
wt = tempfile.mkdtemp(prefix='mutwt_'); os.rmdir(wt)
out = tempfile.mkdtemp(prefix='mutout_')
def sh(*a, **k):
    return subprocess.run(list(a), stdout=subprocess.PIPE, stderr=subprocess.STDOUT, text=True, **k)
r = sh('git', '-C', '/repo', 'worktree', 'add', '-q', '--detach', wt, 'HEAD')
assert r.returncode == 0, r.stdout
try:
    r = sh('git', '-C', wt, 'apply', patch)
    if r.returncode != 0:
        r = sh('git', '-C', wt, 'apply', '--3way', patch)
        if r.returncode != 0 or 'with conflicts' in r.stdout:
            print('PATCH DOES NOT APPLY:', r.stdout[:300]); sys.exit(3)
    env = dict(os.environ, VERIF_REPO_DIR=wt, VERIF_OUT_DIR=out)
    for c in args:
        p = sh(os.path.join(os.path.dirname(os.path.dirname(os.path.abspath(__file__))), 'check'), c, '--tier', tier, cwd=os.path.dirname(os.path.dirname(os.path.abspath(__file__))), env=env)
        lines = [l for l in p.stdout.splitlines() if l.startswith(('VIOLATION', 'KNOWN', 'MACHINERY', '  stage=', '  diagnosis'))]
        print('== %s rc=%d' % (c, p.returncode))
        for l in lines[:6]:
            print('   ', l[:330])
        if p.returncode == 2:
            print(p.stdout[-1500:])
finally:
    sh('git', '-C', '/repo', 'worktree', 'remove', '--force', wt)
    shutil.rmtree(wt, ignore_errors=True); shutil.rmtree(out, ignore_errors=True)
