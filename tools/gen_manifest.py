#!/usr/bin/env python3
"""Regenerate MANIFEST.json from the registered checks (mbt/props.py) + the texts below."""
import json, os, sys
sys.path.insert(0, os.path.dirname(os.path.dirname(os.path.abspath(__file__))))
from mbt import props
ids = [json.loads(l)['id'] for l in open('/verif/properties.jsonl')]
TEXT = {
 'C01': ('Dispatcher.tla (dispatch as a step machine) is model-checked by TLC against WellFormed / CodesAgree / NeverRaises over the full member product of request objects, batches, non-JSON classes and huge literals x 3 dispatcher flavours x batch limits; every TLC scenario is executed on the real dispatchers and the recorded trace (middleware/method/handler/return events) is accepted or rejected by TLC against DispatcherTrace.tla with all invariants in force.', 'DESIGN 4 C01'),
 'C02': ('Same model; invariants AnswerPerCall, BatchIsMap (batch = map of the single-request outcome function over its elements), RejectedExecutesNothing, ExactlyOnce checked by TLC on all batches up to the bound, each replayed on both dispatchers and trace-validated.', 'DESIGN 4 C02'),
 'C03': ('Same model; CodeMapping / RejectionCodes / verbatim protocol errors checked by TLC over codes x messages x data shapes x exception types x call/notification/batch; traces carry the observed error members and a leak flag (exception marker / type name in the text) that the trace spec requires to be FALSE.', 'DESIGN 4 C03'),
 'C04': ('Binding.tla transcribes CPython call binding + context injection; TLC enumerates every grammatical signature up to the bound x context designation x flavour x registration route x input and checks ArgsExact / NoBindNoRun / CtxIsServers / ResultUnchanged; each case is dispatched to a generated method and its trace validated; the spec itself is cross-checked against a real direct call per case.', 'DESIGN 4 C04'),
 'C05': ('Wire.tla: TLC checks RoundTrip / FixPoint / WireExact / ClassOfCode over all messages of the alphabets; every message is built with the real constructors, serialised (to_json and JSONEncoder), decoded, deserialised, re-serialised; the three observations are validated by TLC against WireTrace.tla.  BatchIds.tla covers batches built by append/extend histories.', 'DESIGN 5 C05'),
 'C06': ('Wire.tla parse tables are checked by TLC to accept exactly the structurally valid documents (Strict*) over the member-alphabet products; every document is fed to the real from_json and the verdict / object contents validated by TLC; BatchIds.tla: all append/extend histories, FailureAtomic as an action property, replayed on BatchRequest/BatchResponse.', 'DESIGN 5 C06'),
 'C07': ('EndToEnd.tla: a client program (notation + calls) -> one request document -> dispatcher -> outcome; the expected outcome is a function of the calls only, so notation / id generator / pairing independence is a TLC-checked theorem; every program is executed with the real client wired in-process to the real dispatcher (all four sync/async pairings), the wire document, the server call log and the caller\'s value / typed exception are validated by TLC.', 'DESIGN 6 C07'),
 'C08': ('Client.tla: the server is an adversary; TLC enumerates every response document up to the bound (all arrays over the element alphabet, batch-level errors, malformed bodies) x strict and checks StrictRejects / MalformedIsDeser / RelatedLinked / PositionalByRequestOrder; every document is fed to the real sync and async client and the outcome (exception class, related links, positional order) validated by TLC.', 'DESIGN 6 C08'),
 'C09': ('Retry.tla models retried(traced(_send)) with the transport as environment: TLC explores every outcome sequence attempt by attempt and checks AtMostNPlus1 / ResendExactlyWhen / SleepsAreBackoffPrefix / LastOutcomeUnchanged / PerRequestReplaces; each terminal state is a fault sequence replayed on the real sync and async client with a scripted transport and recorded sleeps; TLC validates send / sleep / return events incl. exact delays.', 'DESIGN 6 C09'),
 'C11': ('No separate model: the half (sync/async, coroutine/plain) is a configuration field the expected outcomes never mention (KindIrrelevant, Expected); the corpora of C01 C03 C12 (+C02 thorough) and C07 C08 C09 C19 are executed on both halves, every execution validated against the same spec, and every pair of recorded event sequences is compared for equality by PairTrace.tla.', 'DESIGN 4 C11'),
 'C19': ('Retry.tla traced layer: TLC checks Paired / CompletionMatchesOutcome / ConfigOrder / CountsEqualOnExit over all outcome sequences (incl. undecodable body, identity mismatch, BaseException, cancellation) x 0..3 tracers x context modes; instrumented Tracer subclasses record begin/end/error with context identity; TLC validates.', 'DESIGN 6 C19'),
 'C10': ('AsyncBatch.tla models the asyncio loop (FIFO ready queue, one running task) serving a batch; TLC explores EVERY interleaving of suspension/resumption within the bound and checks OrderKept / ExactlyOnce / Sequential in every state; every terminal state is one schedule, enforced on the real AsyncDispatcher through driver-owned futures, and the recorded trace is validated by TLC.', 'DESIGN 4 C10'),
 'C12': ('Dispatcher.tla with middleware stacks and error-handler tables as configuration; TLC checks MwOncePerElement / EhOrder / EhOnlyOnFailure / BatchIsMap over all stacks up to the bound x 9 handler tables x request kinds; instrumented middlewares / handlers log enter/exit/handler events that TLC validates.', 'DESIGN 4 C12'),
}
NOTE = 'Trusted: TLC 1.8 + community modules; the hand-written TLA+ model (shaped like the code, bound two-way: every scenario TLC enumerates is executed, every execution is validated, corrupted trace fields are required to be rejected on every run); the finite alphabets of DESIGN 3.1; drivers only concretise/abstract.'
checks = []
for pid in ids:
    if pid not in props.CHECKS:
        continue
    text, ref = TEXT[pid]
    checks.append({'property_id': pid, 'quick_cmd': './check %s --tier quick' % pid, 'thorough_cmd': './check %s --tier thorough' % pid,
                   'evidence_file': '/verif/evidence/%s.json' % pid, 'replay_cmd_template': './check %s --replay {path}' % pid,
                   'engine': 'tlc-mbt', 'level_claimed': {'category': 'model_checking', 'text': text, 'design_ref': ref},
                   'level_note': NOTE, 'technique': 'explicit TLA+ spec + TLC model checking + TLC trace validation of real executions (spec->code scenario replay, code->spec trace acceptance)'})
m = {'version': 1, 'setup_cmd': 'true',
     'hooks': {'guard': 'PJRPC_VERIF', 'enable': 'no source hooks: events are recorded by injected collaborators (DESIGN 2.4); drivers run /venv/bin/python with PYTHONPATH=/repo (fresh interpreter on the working tree) and PJRPC_VERIF=1',
               'baseline_off_cmd': 'cd /repo && env -u PJRPC_VERIF /venv/bin/python -m pytest -ra -q -p no:cacheprovider --timeout=900 --continue-on-collection-errors',
               'source_commits': [], 'add_only': True},
     'engines': [{'name': 'tlc-mbt', 'path': '/verif/check', 'serves_properties': [c['property_id'] for c in checks],
                  'kind_free_text': 'TLA+ specifications in /verif/spec checked with TLC; scenarios emitted by TLC drive real pjrpc (mbt/drivers); recorded traces validated by TLC trace specifications (*Trace.tla)'}],
     'checks': checks,
     'not_applicable': [{'property_id': i, 'reason': 'check not built yet (work in progress, DESIGN.md section 11); the technique applies'} for i in ids if i not in props.CHECKS],
     'notes': 'fix: commits in /repo are listed in /verif/known_findings.json (fixed); unrepaired defects are listed there as known findings.'}
json.dump(m, open('/verif/MANIFEST.json', 'w'), indent=1)
print('checks:', [c['property_id'] for c in checks])
