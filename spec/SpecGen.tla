------------------------------- MODULE SpecGen -------------------------------
(***************************************************************************)
(* OpenAPI / OpenRPC document generation (pjrpc/server/specs/openapi.py     *)
(* 677-871, openrpc.py 448-555, extractors) as a state machine over the     *)
(* USER'S objects: method annotations whose list-valued fields are          *)
(* references into a small heap (two methods may share one `errors` list)   *)
(* and a sequence of generated documents.  Generate must be a pure function *)
(* of the registry.                                                         *)
(***************************************************************************)
EXTENDS Naturals, Sequences, FiniteSets, TLC
CONSTANTS Deviations
VARIABLES scn,      \* [kind, extractor, prefix, statusmap, plan, methods : Seq([fn, ep, errs, tags, cpref, name, meta])]
                    \* plan: "same" = three generations for the same registry; "shrink" = the second generation (same specification
                    \*       object) documents only the first method, the third all of them again; "grow" = the first generation precedes the
\*       definition of the last method
                    \* meta: "full" = the method is annotated with its own summary, description, deprecated flag, example,
                    \*       servers, external docs (and security for OpenAPI); "schemas" = explicit params / result schemas
                    \* statusmap: "map" = OpenAPI(error_http_status_map={2001: 400}): that error gets a response entry of its own
          heap,     \* heap[k] : Seq of error codes = the annotated `errors` list object k (1: shared, 1+j: method j's own)
          docs      \* Seq of generated abstract documents (each: Seq of entries)
vars == <<scn, heap, docs>>

\* facts about the function pool (mirrored by the driver): documented parameters and docstring `:raises:`
\* f5 raises (per its docstring) an error class that may come into being only after the first generation (plan "grow")
ParamNames == [f1 |-> <<"a", "b">>, f2 |-> <<"items", "m">>, f3 |-> <<"flag", "opt">>, f4 |-> <<>>,    f5 |-> <<>>]
Required   == [f1 |-> <<"a">>,      f2 |-> <<"items", "m">>, f3 |-> <<>>,              f4 |-> <<>>,    f5 |-> <<>>]
DocRaises  == [f1 |-> <<2002>>,     f2 |-> <<>>,             f3 |-> <<2001>>,          f4 |-> <<>>,    f5 |-> <<2003>>]
ResultKind == [f1 |-> "model",      f2 |-> "list",           f3 |-> "null",            f4 |-> "any",   f5 |-> "any"]   \* the return annotation
HasDoc     == [f1 |-> TRUE,         f2 |-> FALSE,            f3 |-> TRUE,              f4 |-> FALSE,   f5 |-> TRUE]    \* the function has a docstring

ReadsDocstrings == scn.extractor \in {"doc", "doc+pyd"}
RendersErrors   == scn.kind = "openrpc" \/ scn.extractor # "base"      \* the base extractor produces no response schemas at all
ReadsSignatures == scn.extractor \in {"pyd", "doc", "doc+pyd"}
ErrRef(j) == CASE scn.methods[j].errs = "shared" -> 1 [] scn.methods[j].errs \in {"own", "own2"} -> 1 + j [] OTHER -> 0
\* an annotated errors list starts as [E2001]; a method's own list of kind "own2" as [E2001, E2002]
InitHeap(ms) == [k \in 1..(1 + Len(ms)) |-> IF k > 1 /\ ms[k - 1].errs = "own2" THEN <<2001, 2002>> ELSE <<2001>>]
InitWith(s) == scn = s /\ heap = InitHeap(s.methods) /\ docs = <<>>

RECURSIVE Dedup(_)
Dedup(s) == IF s = <<>> THEN <<>> ELSE IF \E i \in 1..(Len(s) - 1) : s[i] = s[Len(s)] THEN Dedup(SubSeq(s, 1, Len(s) - 1))
            ELSE Append(Dedup(SubSeq(s, 1, Len(s) - 1)), s[Len(s)])
SetOf(s) == {s[i] : i \in DOMAIN s}
\* what method j's entry must say - derived from method j's own annotations and docstring only
Documented(j) == scn.kind # "openrpc" \/ scn.methods[j].ep = "root"        \* OpenRPC documents the root endpoint's methods
\* plan "swap": in the SECOND generation every exposed name is served by ANOTHER function (a fresh parameterless, undocumented,
\* unannotated one, like f4) - what was documented for the old function must not survive.  EffM(j, g) is the method as
\* generation g has to document it; fn / name stay the identification of the entry (the exposed name and endpoint).
Swapped(g) == scn.plan = "swap" /\ g = 2
EffM(j, g) == IF Swapped(g) THEN [scn.methods[j] EXCEPT !.errs = "unset", !.tags = "none", !.cpref = "none", !.meta = "none"]
              ELSE scn.methods[j]
EffFn(j, g) == IF Swapped(g) THEN "f4" ELSE scn.methods[j].fn
EntryOfG(j, h, g) ==
    LET m == EffM(j, g)  f == EffFn(j, g)
        ref == IF m.errs = "shared" THEN 1 ELSE IF m.errs \in {"own", "own2"} THEN 1 + j ELSE 0 IN
    [fn |-> m.fn, ep |-> m.ep, name |-> m.name,          \* name: "own" (the function's name) or an explicit exposed name
     \* the documented result type is the method's own: the explicit result schema if one was annotated, else the return annotation
     result |-> IF m.meta = "schemas" THEN "explicit_own" ELSE IF scn.extractor = "pyd" THEN ResultKind[f] ELSE "na",
     \* summary / description / deprecated / examples / servers / external docs / security are the method's own (see FacetsAllowed)
     meta |-> "ok",
     errors |-> IF ~(RendersErrors \/ m.meta = "schemas") THEN {}       \* an explicit result schema is always combined with the method's errors
                ELSE SetOf(IF ref = 0 THEN <<>> ELSE h[ref]) \cup (IF ReadsDocstrings THEN SetOf(DocRaises[f]) ELSE {}),
     \* the texts shown next to the error codes are those of the error classes the method itself lists / names in its docstring
     \* (another class may carry the same code: an "own" list names E2001own, the shared list E2001 - both code 2001)
     errtext |-> "own",
     tags |-> m.tags,
     \* the request schema (if one is produced) names the method it belongs to
     reqname |-> IF scn.kind # "openrpc" /\ (scn.extractor \in {"pyd", "doc+pyd"} \/ m.meta = "schemas") THEN "own" ELSE "na",
     \* (documented parameters are the subject of C17 / Binding.tla)
     cpref |-> IF scn.extractor = "pyd" /\ scn.kind # "openrpc" /\ m.meta # "schemas" THEN m.cpref ELSE "na"]       \* prefix of the method's component schemas
\* The free-text facets of an entry, as classified by the driver RELATIVE TO THE METHOD THE ENTRY BELONGS TO:
\*   "own_ann" the value the method itself was annotated with, "own_doc" text taken from the method's own docstring,
\*   "absent", "foreign" anything else (e.g. another method's annotation); deprecated: "true" / "false" / "absent".
\* An annotated method shows exactly its own annotations; an unannotated one shows nothing, or its own docstring's text.
EntryOf(j, h) == EntryOfG(j, h, 1)
FromDoc(m) == IF HasDoc[m.fn] THEN {"absent", "own_doc"} ELSE {"absent"}
FacetsAllowed(x, m) ==
    IF m.meta = "full"
    THEN /\ x.summary = "own_ann" /\ x.description = "own_ann" /\ x.deprecated = "true" /\ x.examples = "own_ann"
         /\ x.servers = "own_ann" /\ x.extdocs = "own_ann" /\ x.security = (IF scn.kind = "openrpc" THEN "absent" ELSE "own_ann")
    ELSE /\ x.summary \in FromDoc(m) /\ x.description \in FromDoc(m) /\ x.deprecated \in {"absent", "false"}
         /\ x.examples = "absent" /\ x.servers = "absent" /\ x.extdocs = "absent" /\ x.security = "absent"
MetaVerdictG(e, g) == IF \E j \in DOMAIN scn.methods : /\ scn.methods[j].fn = e.fn /\ scn.methods[j].ep = e.ep /\ scn.methods[j].name = e.name
                                                       /\ FacetsAllowed(e.meta, [EffM(j, g) EXCEPT !.fn = EffFn(j, g)])
                      THEN "ok" ELSE "foreign"
MetaVerdict(e) == MetaVerdictG(e, 1)
\* the registry handed to generation g
\* plan "grow": the last method (and whatever it refers to) is defined and registered only after the first generation
Sub(g) == IF scn.plan = "shrink" /\ g = 2 THEN {1}
          ELSE IF scn.plan = "grow" /\ g = 1 THEN DOMAIN scn.methods \ {Len(scn.methods)}
          ELSE DOMAIN scn.methods
DocOfSub(h, J) == {EntryOf(j, h) : j \in {i \in J : Documented(i)}}
DocOf(h) == DocOfSub(h, DOMAIN scn.methods)
DocAt(h, g) == {EntryOfG(j, h, g) : j \in {i \in Sub(g) : Documented(i)}}         \* the document generation g has to produce

\* a generation: appends a document, touches nothing the user owns
\* Known deviations (known_findings.json): documents that do not validate against the official meta-schema
\*   OpenApi30Invalid  : OpenAPI 3.0.x output built from pydantic / docstring extractor schemas, or from the library's own request /
\*                       response envelope around explicitly annotated schemas (JSON-schema 2020-12 keywords: const, examples, type null)
\*   DocstringNullType : the docstring extractor emits "type": null for untyped parameters / results (OpenRPC validates schemas)
MetaMayFail == \/ "OpenApi30Invalid" \in Deviations /\ scn.kind = "openapi30"
                  /\ (scn.extractor # "base" \/ \E j \in DOMAIN scn.methods : scn.methods[j].meta = "schemas")
               \/ "DocstringNullType" \in Deviations /\ scn.kind = "openrpc" /\ scn.extractor = "doc"
Generate == /\ docs' = Append(docs, DocAt(heap, Len(docs) + 1))
            /\ heap' = heap
            /\ UNCHANGED scn
Next == Generate
Spec == [][Next]_vars

Pure       == [][heap' = heap]_vars
Idempotent == \A i, j \in DOMAIN docs : (Sub(i) = Sub(j) /\ Swapped(i) = Swapped(j)) => docs[i] = docs[j]
Isolated   == \A i \in DOMAIN docs : docs[i] = DocAt(InitHeap(scn.methods), i)     \* as if every method had been documented alone, first
ExactlyOnce == \A i \in DOMAIN docs : Cardinality(docs[i]) = Cardinality({j \in Sub(i) : Documented(j)})
=============================================================================
