INIT InitQuick
NEXT NextSeq
CONSTANTS
  MaxStray = 1
INVARIANT EmitSeq
CHECK_DEADLOCK FALSE
