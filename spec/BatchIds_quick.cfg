SPECIFICATION Spec
CONSTANTS
  IdAlpha <- IdsQuick
  MaxOps = 3
  MaxIds = 4
  MaxExtend = 2
CONSTRAINT Bound
INVARIANT IdsConsistent
INVARIANT NoDuplicates
PROPERTY FailureAtomic
PROPERTY FailsIffDup
CHECK_DEADLOCK FALSE
