---------------------------- MODULE EndToEndTrace ----------------------------
(* Trace validation of real client programs served by the real dispatcher in-process (EndToEnd). *)
EXTENDS EndToEnd, TraceBase
DevUuid == {"UuidIds"}
TraceInit == tid \in 1..NTraces /\ l = 1 /\ InitWith(Traces[tid].scn.prog)
\* the transport saw a request text: E.doc is its abstraction; wf: parses as a valid request (batch); ids_ok: ids present
\* and pairwise distinct for calls, absent for notifications
\* the transport is also told whether the document is a notification (nothing but notifications in it) and is handed the
\* client-wide request arguments, overridden by those given for this very request (the hand-built `send` notation does that)
TSend    == /\ IsEvent("Send") /\ Send /\ wire'[1] = E.doc /\ E.wf = TRUE /\ E.ids_ok = TRUE
            /\ E.notif = (\A j \in DOMAIN prog.calls : prog.calls[j].notif)
            /\ E.kw = (IF prog.notation = "send" THEN "override" ELSE "client")
\* the dispatcher returned; E.execs = the server-side call log
TServe   == IsEvent("Serve") /\ Serve /\ execLog' = E.execs
TReturn  == IsEvent("Return") /\ Deliver /\ out' = [k |-> E.k, vals |-> E.vals, err |-> "na"]
TRaise   == IsEvent("Raise") /\ \/ (Deliver /\ out' = [k |-> "raise", vals |-> <<>>, err |-> E.err] /\ E.verbatim = TRUE)
                                \/ (Dev_EncodeFails /\ E.err = "TypeError")
TSilent  == Build /\ Silent
TraceNext == TSend \/ TServe \/ TReturn \/ TRaise \/ TSilent
TraceConstraint == OneWellFormedDocPerCall /\ ValueIsDirectCall /\ ErrorIsTypedAndVerbatim
                   /\ NotificationsReturnNothingRunOnce /\ NotationsInterchangeable /\ Progress
=============================================================================
