INIT TraceInit
NEXT TraceNext
CONSTRAINT TraceConstraint
POSTCONDITION Post
CHECK_DEADLOCK FALSE
CONSTANTS
  Corpus <- EmptySet
  MaxLen = 0
  Deviations <- EmptySet
