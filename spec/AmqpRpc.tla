------------------------------- MODULE AmqpRpc -------------------------------
(***************************************************************************)
(* JSON-RPC over a message broker: the aio_pika client backend              *)
(* (pjrpc/client/backend/aio_pika.py) talking to the aio_pika server        *)
(* integration (pjrpc/server/integration/aio_pika.py) through queues.       *)
(*                                                                         *)
(* Several calls are in flight on ONE client at the same time.  A call      *)
(* publishes its request with a fresh correlation id and a reply_to queue   *)
(* (one shared result queue, or an exclusive queue per request), registers  *)
(* a future under the correlation id and waits.  The server consumes the    *)
(* request queue, dispatches, publishes the reply to reply_to with the      *)
(* request's correlation id and acknowledges the request.  The client's     *)
(* result consumer resolves the future registered under the reply's         *)
(* correlation id; replies nobody waits for are dropped; a reply with a     *)
(* foreign content type fails the call with the deserialisation error.      *)
(* close() fails every call still waiting with CancelledError.              *)
(*                                                                         *)
(* The broker is the environment: it decides WHEN each queue head is        *)
(* delivered (any interleaving across queues, FIFO inside a queue) and may  *)
(* inject stray replies.  Correlation ids are abstracted by the index of    *)
(* the call that generated them (0: an id nobody generated).                *)
(***************************************************************************)
EXTENDS Naturals, Sequences, FiniteSets, TLC

CONSTANTS MaxStray
VARIABLES cfg,       \* [mode \in {"shared", "exclusive"}, calls : Seq([kind \in {"call", "notify"}, beh \in {"ok", "err"}])]
          cst,       \* cst[i] \in {"new", "waiting", "returned", "raised"}
          outcome,   \* outcome[i]: "none" | [k |-> "value", of |-> j] (the reply to request j) | [k |-> "raise", of |-> exception kind]
          reqQ,      \* broker: the request queue, Seq of [call, has_reply, reply_to, cid]
          replyQ,    \* broker: reply queues, name -> Seq of [cid, ctype, of]; names: 0 = the shared result queue, i = the exclusive queue of call i
          futures,   \* client: correlation ids a future is registered for
          served,    \* server: indices of the requests whose method ran, in order
          acks,      \* server: acks[i] = how often request i was acknowledged
          published, \* server: indices of the requests a reply was published for
          fgn,       \* server: what became of requests a FOREIGN producer put on the request queue: [ran, unacked, lost]
          closed, strays, sched
vars == <<cfg, cst, outcome, reqQ, replyQ, futures, served, acks, published, fgn, closed, strays, sched>>

Idx == DOMAIN cfg.calls
IsCall(i) == cfg.calls[i].kind = "call"
Shared == 0
QueueOf(i) == IF cfg.mode = "shared" THEN Shared ELSE i
Queues == {Shared} \cup Idx
Value(i) == [k |-> "value", of |-> i]
Raised(x) == [k |-> "raise", of |-> x]

InitWith(c) == /\ cfg = c
               /\ cst = [i \in DOMAIN c.calls |-> "new"] /\ outcome = [i \in DOMAIN c.calls |-> "none"]
               /\ reqQ = <<>> /\ replyQ = [q \in {0} \cup DOMAIN c.calls |-> <<>>] /\ futures = {}
               /\ served = <<>> /\ acks = [i \in DOMAIN c.calls |-> 0] /\ published = {}
               /\ fgn = [ran |-> 0, unacked |-> 0, lost |-> 0]
               /\ closed = FALSE /\ strays = 0 /\ sched = <<>>

Step(op, i, q, cid, ctype) == sched' = Append(sched, [op |-> op, i |-> i, q |-> q, cid |-> cid, ctype |-> ctype])

\* Client._request up to its first suspension: a notification is published without reply_to / correlation id and returns at
\* once; a call registers its future, publishes and waits
Start(i) ==
    /\ ~closed /\ cst[i] = "new"
    /\ IF IsCall(i)
       THEN /\ futures' = futures \cup {i}
            /\ reqQ' = Append(reqQ, [call |-> i, has_reply |-> TRUE, reply_to |-> QueueOf(i), cid |-> i, foreign |-> "no"])
            /\ cst' = [cst EXCEPT ![i] = "waiting"] /\ outcome' = outcome
       ELSE /\ futures' = futures
            /\ reqQ' = Append(reqQ, [call |-> i, has_reply |-> FALSE, reply_to |-> 0, cid |-> 0, foreign |-> "no"])
            /\ cst' = [cst EXCEPT ![i] = "returned"] /\ outcome' = outcome
    /\ Step("start", i, 0, 0, "na")
    /\ UNCHANGED <<cfg, replyQ, served, acks, published, fgn, closed, strays>>

\* Executor._rpc_handle for the head of the request queue: dispatch, publish the reply (calls only), acknowledge
Serve ==
    /\ reqQ # <<>>
    /\ LET m == Head(reqQ) IN
       /\ reqQ' = Tail(reqQ)
       /\ CASE m.foreign = "garbage" ->
                 \* the body cannot be decoded: nothing runs, nothing is published, the message is NOT acknowledged
                 /\ fgn' = [fgn EXCEPT !.unacked = @ + 1] /\ UNCHANGED <<served, acks, replyQ, published>>
            [] m.foreign = "noreply" ->
                 \* a call without reply_to: the method runs, the reply is published to the routing key "" (nobody's queue)
                 \* and the request is acknowledged
                 /\ fgn' = [fgn EXCEPT !.ran = @ + 1, !.lost = @ + 1] /\ UNCHANGED <<served, acks, replyQ, published>>
            [] OTHER ->
                 /\ served' = Append(served, m.call)
                 /\ acks' = [acks EXCEPT ![m.call] = @ + 1]
                 /\ fgn' = fgn
                 /\ IF IsCall(m.call)
                    THEN /\ replyQ' = [replyQ EXCEPT ![m.reply_to] = Append(@, [cid |-> m.cid, ctype |-> "json", of |-> m.call])]
                         /\ published' = published \cup {m.call}
                    ELSE UNCHANGED <<replyQ, published>>
    /\ Step("serve", 0, 0, 0, "na")
    /\ UNCHANGED <<cfg, cst, outcome, futures, closed, strays>>

\* another producer (not this client) puts a request on the request queue: a call that names no reply queue, or bytes that are
\* not even text.  Whatever the server does with it, the client's calls are not touched.
Foreign(k) ==
    /\ strays < MaxStray /\ k \in {"noreply", "garbage"}
    /\ reqQ' = Append(reqQ, [call |-> 0, has_reply |-> FALSE, reply_to |-> 0, cid |-> 0, foreign |-> k])
    /\ strays' = strays + 1
    /\ Step("foreign", 0, 0, 0, k)
    /\ UNCHANGED <<cfg, cst, outcome, replyQ, futures, served, acks, published, fgn, closed>>

\* the result consumer exists while the client is connected (shared queue) / while the owning call waits (exclusive queue)
HasConsumer(q) == ~closed /\ (IF q = Shared THEN cfg.mode = "shared" ELSE cfg.mode = "exclusive" /\ cst[q] = "waiting")
\* Client._on_result_message
DeliverReply(q) ==
    /\ replyQ[q] # <<>> /\ HasConsumer(q)
    /\ LET m == Head(replyQ[q]) IN
       /\ replyQ' = [replyQ EXCEPT ![q] = Tail(@)]
       /\ IF m.cid \in futures
          THEN /\ futures' = futures \ {m.cid}
               /\ cst' = [cst EXCEPT ![m.cid] = IF m.ctype = "json" THEN "returned" ELSE "raised"]
               /\ outcome' = [outcome EXCEPT ![m.cid] = IF m.ctype = "json" THEN Value(m.of) ELSE Raised("Deser")]
          ELSE UNCHANGED <<futures, cst, outcome>>            \* unexpected or outdated: dropped
    /\ Step("deliver", 0, q, 0, "na")
    /\ UNCHANGED <<cfg, reqQ, served, acks, published, fgn, closed, strays>>

\* the environment puts a reply nobody asked for into a reply queue: an unknown correlation id, or the id of a waiting call
\* with a foreign content type
Stray(q, cid, ctype) ==
    /\ strays < MaxStray /\ ~closed
    /\ (q = Shared \/ (q \in Idx /\ IsCall(q) /\ cst[q] # "new"))        \* an exclusive queue exists once its call was started
    /\ \/ (cid = 0 /\ ctype = "json")
       \/ (cid \in Idx /\ IsCall(cid) /\ cst[cid] = "waiting" /\ QueueOf(cid) = q /\ ctype = "text")   \* only an id that exists can be echoed
    /\ replyQ' = [replyQ EXCEPT ![q] = Append(@, [cid |-> cid, ctype |-> ctype, of |-> 0])]
    /\ strays' = strays + 1
    /\ Step("stray", 0, q, cid, ctype)
    /\ UNCHANGED <<cfg, cst, outcome, reqQ, futures, served, acks, published, fgn, closed>>

\* Client.close(): every call still waiting fails with CancelledError and its future is forgotten
Close ==
    /\ ~closed /\ closed' = TRUE
    /\ cst' = [i \in Idx |-> IF cst[i] = "waiting" THEN "raised" ELSE cst[i]]
    /\ outcome' = [i \in Idx |-> IF cst[i] = "waiting" THEN Raised("Cancelled") ELSE outcome[i]]
    /\ futures' = {}
    /\ Step("close", 0, 0, 0, "na")
    /\ UNCHANGED <<cfg, reqQ, replyQ, served, acks, published, fgn, strays>>

Next == \/ \E i \in Idx : Start(i)
        \/ Serve
        \/ \E q \in Queues : DeliverReply(q)
        \/ \E q \in Queues, c \in {0} \cup Idx, t \in {"json", "text"} : Stray(q, c, t)
        \/ Close
        \/ \E k \in {"noreply", "garbage"} : Foreign(k)
Spec == [][Next]_vars
\* without close() and without stray replies every call is eventually answered
Quiet == ~closed /\ strays = 0
Finished == \A i \in Idx : cst[i] \in {"returned", "raised"}
NoClose == [][~closed']_vars
FairSpec == Spec /\ WF_vars(\E i \in Idx : Start(i)) /\ WF_vars(Serve) /\ WF_vars(\E q \in Queues : DeliverReply(q))

(****************************** properties *********************************)
\* a call returns the reply to ITS request, whatever else is in flight and in whatever order the broker delivers
NoCrossTalk == \A i \in Idx : (cst[i] = "returned" /\ IsCall(i)) => outcome[i] = Value(i)
\* a reply resolves a call only after the server served that very request
AnswerAfterServe == \A i \in Idx : (cst[i] = "returned" /\ IsCall(i)) => (i \in published /\ \E k \in DOMAIN served : served[k] = i)
\* notifications: fire and forget - nothing is awaited, nothing is ever published for them
NotifyFireAndForget == \A i \in Idx : ~IsCall(i) => (cst[i] \in {"new", "returned"} /\ outcome[i] = "none" /\ i \notin published)
\* no future outlives its call: the map of pending futures is exactly the set of waiting calls
FuturesExact == futures = {i \in Idx : cst[i] = "waiting"}
\* every request is dispatched at most once and acknowledged exactly when it was dispatched
ServedOnce == /\ \A j, k \in DOMAIN served : j # k => served[j] # served[k]
              /\ \A i \in Idx : acks[i] = Cardinality({k \in DOMAIN served : served[k] = i})
\* requests are served in the order they were published (one consumer, FIFO queue)
ServedInPublishOrder == \A j, k \in DOMAIN served : j < k =>
    \E a, b \in DOMAIN sched : a < b /\ sched[a].op = "start" /\ sched[a].i = served[j] /\ sched[b].op = "start" /\ sched[b].i = served[k]
\* only a foreign content type or close() make a call raise
RaisesOnlyFor == \A i \in Idx : cst[i] = "raised" => outcome[i] \in {Raised("Deser"), Raised("Cancelled")}
\* what a foreign producer sends never shows up in the client's bookkeeping: its replies go nowhere, nothing is acknowledged that
\* could not be read, and every request of the CLIENT is still served exactly once
ForeignHarmless == fgn.lost = fgn.ran /\ fgn.ran + fgn.unacked <= strays
TypeOK == /\ cst \in [Idx -> {"new", "waiting", "returned", "raised"}] /\ futures \subseteq Idx /\ closed \in BOOLEAN
Termination == <>Finished
=============================================================================
