------------------------------ MODULE MockerTrace ------------------------------
(* Trace validation of operation histories replayed on a real PjRpcMocker (sync and async transport). *)
EXTENDS Mocker, TraceBase
E2T == {"e1", "e2"}
M2T == {"m1", "m2"}
\* re-entrant callbacks (scenario variant `nest`): while it answers, every callback patch uses the mocker itself - a replace()
\* at an index nothing is at ("error": it fails and changes nothing, FailedOpsAtomic) and, over the synchronous transport, a
\* call to a method of its own endpoint that has no patch ("mnf": -32601, nothing recorded, no rotation; when the answering
\* patch was the endpoint's last one and is used up already the endpoint may count as unpatched at that moment: passed on /
\* refused as configured - the statement does not say when a once-patch leaves).  Both come back, in this order, once per
\* callback that answered; the state of the model is the one of the history without them.
NCallbacks(rs) == Cardinality({j \in DOMAIN rs : rs[j].body = "callback"})
PerCallback == IF Scn.kind = "sync" THEN 2 ELSE 1
NestOk(ns, rs) == /\ Len(ns) = (IF Scn.nest THEN NCallbacks(rs) * PerCallback ELSE 0)
                  /\ \A j \in DOMAIN ns :
                        IF Scn.kind = "sync" /\ j % 2 = 0 THEN ns[j] \in {"mnf", IF passthrough THEN "passed" ELSE "refused"}
                        ELSE ns[j] = "error"
TraceInit == tid \in 1..NTraces /\ l = 1 /\ InitWith(Traces[tid].scn.passthrough)
\* one event per operation, logged after it returned / raised: its observable result, the reply documents of a call
\* (id, kind of body, which patch produced it) and everything mocker.calls has recorded so far
TOp == /\ IsEvent("Op")
       /\ Do(E.op)
       /\ last'.k = E.k
       /\ last'.replies = E.replies
       /\ calls' = E.calls
       /\ NestOk(E.nest, last'.replies)
TraceNext == TOp
TraceConstraint == TypeOK /\ CallInvariant /\ UnpatchedEndpoint /\ Progress
=============================================================================
