------------------------------ MODULE MockerTrace ------------------------------
(* Trace validation of operation histories replayed on a real PjRpcMocker (sync and async transport). *)
EXTENDS Mocker, TraceBase
E2T == {"e1", "e2"}
M2T == {"m1", "m2"}
TraceInit == tid \in 1..NTraces /\ l = 1 /\ InitWith(Traces[tid].scn.passthrough)
\* one event per operation, logged after it returned / raised: its observable result, the reply documents of a call
\* (id, kind of body, which patch produced it) and everything mocker.calls has recorded so far
TOp == /\ IsEvent("Op")
       /\ Do(E.op)
       /\ last'.k = E.k
       /\ last'.replies = E.replies
       /\ calls' = E.calls
TraceNext == TOp
TraceConstraint == TypeOK /\ CallInvariant /\ UnpatchedEndpoint /\ Progress
=============================================================================
