INIT Init
NEXT Next
CONSTRAINT Bound
INVARIANT Stable
INVARIANT Complete
CHECK_DEADLOCK FALSE
