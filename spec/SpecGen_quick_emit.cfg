INIT InitQuick
CONSTANTS
  Deviations = {}
CHECK_DEADLOCK FALSE
NEXT NoNext
INVARIANT EmitScn
