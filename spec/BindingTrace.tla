----------------------------- MODULE BindingTrace -----------------------------
(* Trace validation of dispatches to generated methods against Binding. *)
EXTENDS Binding, TraceBase
DevKwRebind == {"KwRebind"}

KeysOf(k) == {x \in KeyNames : k[x]}
TraceInit == /\ tid \in 1..NTraces /\ l = 1
             /\ LET s == Traces[tid].scn IN
                InitWith(s.sig, s.ctx, s.flavour, s.route, [k |-> s.inp.k, n |-> s.inp.n, keys |-> KeysOf(s.inp.keys)])

\* spec sanity (DESIGN 3.2): a DIRECT Python call g(*L) / g(**M) on a function with the effective signature.
\* A mismatch here is a transcription error of the specification, never a finding about pjrpc.
TDirect == /\ IsEvent("Direct") /\ pc = "recv"
           /\ \/ Verdict = "dontcare"
              \/ Verdict = "fail" /\ E.v = "fail"
              \/ /\ Verdict = "ok" /\ E.v = "ok"
                 /\ \A x \in DOMAIN ExpectedRec : (ExpectedRec[x] = "CTX" \/ ExpectedRec[x] = E.rec[x])
                 /\ E.va = ExpectedVa /\ E.kw = ExpectedKw
           /\ UNCHANGED vars
Obs == [ran |-> TRUE, vctx |-> E.vctx, rec |-> E.rec, va |-> E.va, kw |-> E.kw]
TExec   == IsEvent("Exec") /\ Exec(Obs)
TReply  == /\ IsEvent("Reply")
           /\ \/ (ReplyResult /\ E.r = "result")
              \/ (ReplyInvalidParams /\ E.r = "c_m32602")
              \/ (Dev_ReplyServerError /\ E.r = "c_m32000")
TSilent == Bind /\ Silent
TraceNext == TDirect \/ TExec \/ TReply \/ TSilent
TraceConstraint == NoBindNoRun /\ ArgsExact /\ CtxIsServers /\ ResultUnchanged /\ Progress
=============================================================================
