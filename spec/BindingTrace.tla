----------------------------- MODULE BindingTrace -----------------------------
(* Trace validation of dispatches to generated methods against Binding. *)
EXTENDS Binding, TraceBase
DevKwRebind == {"KwRebind"}

KeysOf(k) == {x \in KeyNames : k[x]}
TraceInit == /\ tid \in 1..NTraces /\ l = 1
             /\ LET s == Traces[tid].scn IN
                InitWith(s.sig, s.ctx, s.flavour, s.route, [k |-> s.inp.k, n |-> s.inp.n, keys |-> KeysOf(s.inp.keys)])

\* spec sanity (DESIGN 3.2): a DIRECT Python call g(*L) / g(**M) on a function with the effective signature.
\* A mismatch here is a transcription error of the specification, never a finding about pjrpc.
TDirect == /\ IsEvent("Direct") /\ pc = "recv"
           /\ \/ Verdict = "dontcare"
              \/ Verdict = "fail" /\ E.v = "fail"
              \/ /\ Verdict = "ok" /\ E.v = "ok"
                 /\ \A x \in DOMAIN ExpectedRec : (ExpectedRec[x] = "CTX" \/ (ctx.xname = x) \/ ExpectedRec[x] = E.rec[x])
                 /\ E.va = ExpectedVa /\ E.kw = ExpectedKw
           /\ UNCHANGED vars
\* C17: the parameter names (and the required ones) the generated OpenAPI request schema / OpenRPC params list for this method
TDoc == /\ IsEvent("Doc") /\ pc = "recv" /\ E.kind \in {"openapi", "openrpc"}
        \* (for class based views too: neither the instance parameter nor the view's context name plays a part - repaired in fe4ee47)
        /\ {E.names[k] : k \in DOMAIN E.names} = DocNames
        /\ {E.required[k] : k \in DOMAIN E.required} = DocRequired
        /\ UNCHANGED vars
Obs == [ran |-> TRUE, vctx |-> E.vctx, rec |-> E.rec, va |-> E.va, kw |-> E.kw]
TExec   == IsEvent("Exec") /\ Exec(Obs)
TReply  == /\ IsEvent("Reply")
           /\ \/ (ReplyResult /\ E.r = "result")
              \/ (ReplyInvalidParams /\ E.r = "c_m32602")
              \/ (Dev_ReplyServerError /\ E.r = "c_m32000")
TSilent == Bind /\ Silent
TraceNext == TDoc \/ TDirect \/ TExec \/ TReply \/ TSilent
TraceConstraint == DocumentedIsAccepted /\ NoBindNoRun /\ ArgsExact /\ CtxIsServers /\ ResultUnchanged /\ Progress
=============================================================================
