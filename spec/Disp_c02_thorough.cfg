INIT MyInit
NEXT Next
CONSTANTS
  Cfgs <- EmptyC
  Texts <- EmptyC
CHECK_DEADLOCK FALSE
INVARIANT TypeOK
INVARIANT WellFormed
INVARIANT CodesAgree
INVARIANT BatchIsMap
INVARIANT AnswerPerCall
INVARIANT NothingForNotifications
INVARIANT RejectedExecutesNothing
INVARIANT ExactlyOnce
INVARIANT NoSpuriousExec
INVARIANT RejectionCodes
INVARIANT CodeMapping
INVARIANT MwOncePerElement
INVARIANT EhOrder
INVARIANT EhOnlyOnFailure
INVARIANT KindIrrelevant
