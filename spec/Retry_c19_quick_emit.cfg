INIT MyInit
NEXT Next
INVARIANT EmitScn
CONSTANTS
  Cfgs <- EmptyC
CHECK_DEADLOCK FALSE
