---------------------------- MODULE HttpGateTrace ----------------------------
(* Trace validation of real HTTP exchanges (aiohttp test server, flask / werkzeug test clients) against HttpGate. *)
EXTENDS HttpGate, TraceBase
TraceInit == tid \in 1..NTraces /\ l = 1 /\ InitWith(Traces[tid].scn.req)
Matches(s, o) == /\ s.status = o.status
                 /\ (s.ctype = "any" \/ s.ctype = o.ctype)
                 /\ (s.body = "any" \/ s.body = o.body)
\* the HTTP reply: status, content-type class ("json" = the library's JSON content type), body class ("same" = equal, as a JSON
\* value, to what an identically configured dispatcher returns for the same text; "empty"; "parse_error" = a -32700 document);
\* E.execs = how many registered methods ran
TReply == /\ IsEvent("Reply")
          /\ \/ (Refuse /\ E.execs = 0)
             \/ (RefuseCharset /\ E.execs = 0)
             \/ (pc = "dispatched" /\ req.body # "non_utf8" /\ Reply /\ E.execs = execs)
             \/ (ReplyUndecodable /\ E.execs = 0)
          /\ Matches(reply', E)
TSilent == Dispatch /\ Silent
TraceNext == TReply \/ TSilent
TraceConstraint == RefuseExecutesNothing /\ RelayExact /\ ExecsAsDispatcher /\ UnknownCharsetNeverFails /\ Progress
=============================================================================
