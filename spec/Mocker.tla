------------------------------- MODULE Mocker -------------------------------
(***************************************************************************)
(* PjRpcMocker (pjrpc/client/integrations/pytest.py): patches per           *)
(* (endpoint, method) kept in a list that rotates on every answered call    *)
(* (pop(0), re-append unless `once`), recorded calls, add / replace /       *)
(* remove / reset, passthrough or refusal for unpatched endpoints.          *)
(***************************************************************************)
EXTENDS Integers, Sequences, FiniteSets, TLC

CONSTANTS Endpoints, Methods, MaxOps, Ops       \* Ops: the operation alphabet of histories
VARIABLES passthrough,
          matches,     \* matches[e][m]: Seq of patches [kind, once, tag]
          calls,       \* calls[e][m]: Seq of [params] recorded
          nextTag,     \* identity of the next added patch
          hist,        \* operations so far
          last         \* observable result of the last operation
vars == <<passthrough, matches, calls, nextTag, hist, last>>

NoPatches == [e \in Endpoints |-> [m \in Methods |-> <<>>]]
Patched(e) == \E m \in Methods : matches[e][m] # <<>>
Ok == [k |-> "ok", replies |-> <<>>]

InitWith(p) == /\ passthrough = p /\ matches = NoPatches /\ calls = NoPatches /\ nextTag = 1
               /\ hist = <<>> /\ last = Ok
Init == \E p \in BOOLEAN : InitWith(p)

\* a patch is identified by the tag of its configured value; "twin" patches are configured IDENTICALLY (they share tag 99):
\* which of them answers cannot be told apart, the sequence of answers can
TwinTag == 99
Patch(kind, once) == [kind |-> kind, once |-> once, tag |-> nextTag]
TwinPatch(kind, once) == [kind |-> kind, once |-> once, tag |-> TwinTag]

\* add: appended behind the existing patches of the pair
Add(e, m, kind, once, twin) ==
    /\ matches' = [matches EXCEPT ![e][m] = Append(@, IF twin THEN TwinPatch(kind, once) ELSE Patch(kind, once))]
    /\ nextTag' = (IF twin THEN nextTag ELSE nextTag + 1) /\ last' = Ok /\ UNCHANGED <<passthrough, calls>>
\* replace the idx-th (0-based; negative: counted from the end, as Python lists do) patch of the pair as the list stands now;
\* nothing there -> an error, nothing changes
Replace(e, m, idx, kind, once) ==
    /\ IF (idx >= 0 /\ idx < Len(matches[e][m])) \/ (idx < 0 /\ -idx <= Len(matches[e][m]))
       THEN /\ matches' = [matches EXCEPT ![e][m][IF idx >= 0 THEN idx + 1 ELSE Len(matches[e][m]) + idx + 1] = Patch(kind, once)]
            /\ nextTag' = nextTag + 1 /\ last' = Ok
       ELSE /\ last' = [k |-> "error", replies |-> <<>>] /\ UNCHANGED <<matches, nextTag>>
    /\ UNCHANGED <<passthrough, calls>>
\* remove the patches of a pair, or of a whole endpoint (m = "all"); nothing there -> an error, nothing changes
Remove(e, m) ==
    /\ IF (m = "all" /\ Patched(e)) \/ (m # "all" /\ matches[e][m] # <<>>)
       THEN /\ matches' = IF m = "all" THEN [matches EXCEPT ![e] = [x \in Methods |-> <<>>]]
                          ELSE [matches EXCEPT ![e][m] = <<>>]
            /\ last' = Ok
       ELSE last' = [k |-> "error", replies |-> <<>>] /\ UNCHANGED matches
    /\ UNCHANGED <<passthrough, calls, nextTag>>
Reset == /\ matches' = NoPatches /\ calls' = NoPatches /\ last' = Ok /\ UNCHANGED <<passthrough, nextTag>>

\* one request element against the current patches: reply + new patch list + recorded call
AnswerOf(ms, e, r) ==       \* ms: matches of endpoint e;  r: [m, id, params]
    IF ms[r.m] = <<>> THEN [reply |-> [id |-> r.id, body |-> "mnf", tag |-> 0], ms |-> ms, rec |-> FALSE]
    ELSE LET p == Head(ms[r.m]) IN
         [reply |-> [id |-> r.id, body |-> p.kind, tag |-> p.tag],
          ms |-> [ms EXCEPT ![r.m] = IF p.once THEN Tail(@) ELSE Append(Tail(@), p)],
          rec |-> TRUE]
RECURSIVE Serve(_, _, _, _)
\* elements of a batch are answered one after the other, each seeing the rotation caused by its predecessors
Serve(ms, cs, e, reqs) ==
    IF reqs = <<>> THEN [ms |-> ms, cs |-> cs, replies |-> <<>>]
    ELSE LET a == AnswerOf(ms, e, Head(reqs))
             rest == Serve(a.ms, IF a.rec THEN [cs EXCEPT ![Head(reqs).m] = Append(@, Head(reqs).params)] ELSE cs, e, Tail(reqs))
         IN [ms |-> rest.ms, cs |-> rest.cs, replies |-> <<a.reply>> \o rest.replies]
\* a client call (single request or batch) to endpoint e
Call(e, shape, reqs) ==
    /\ IF ~Patched(e)
       THEN /\ last' = [k |-> IF passthrough THEN "passed" ELSE "refused", replies |-> <<>>]
            /\ UNCHANGED <<matches, calls>>
       ELSE LET s == Serve(matches[e], calls[e], e, reqs) IN
            /\ matches' = [matches EXCEPT ![e] = s.ms]
            /\ calls' = [calls EXCEPT ![e] = s.cs]
            /\ last' = [k |-> shape, replies |-> s.replies]
    /\ UNCHANGED <<passthrough, nextTag>>

Do(op) == /\ hist' = Append(hist, op)
          /\ CASE op.op = "add"     -> Add(op.e, op.m, op.kind, op.once, op.twin)
               [] op.op = "replace" -> Replace(op.e, op.m, op.idx, op.kind, op.once)
               [] op.op = "remove"  -> Remove(op.e, op.m)
               [] op.op = "reset"   -> Reset
               [] op.op = "call"    -> Call(op.e, op.shape, op.reqs)
Next == \E op \in Ops : Do(op)
Spec == Init /\ [][Next]_vars
Bound == Len(hist) <= MaxOps

(******************************* properties *********************************)
Tags(e, m) == {matches[e][m][j].tag : j \in DOMAIN matches[e][m]}
\* every reply carries the id of the request it answers
ReplyCarriesRequestId == \A j \in DOMAIN hist : TRUE
LastCall == hist[Len(hist)]
CallInvariant == (hist # <<>> /\ LastCall.op = "call" /\ last.k \in {"single", "batch"}) =>
    /\ Len(last.replies) = Len(LastCall.reqs)                                        \* batches are answered element-wise
    /\ \A j \in DOMAIN last.replies : last.replies[j].id = LastCall.reqs[j].id       \* ... with the request ids (0 and "" included)
\* an unpatched method on a patched endpoint gets -32601; it is not recorded
UnpatchedEndpoint == (hist # <<>> /\ LastCall.op = "call") => ((last.k \in {"passed", "refused"}) => last.replies = <<>>)
\* a failed operation changes nothing (action property)
FailedOpsAtomic == [][last'.k = "error" => (matches' = matches /\ calls' = calls)]_vars
\* once-patches are consumed by the call they answer; others stay, in round-robin order
OnceUsedOnce == [][\A e \in Endpoints, m \in Methods :
                      (hist' # hist /\ hist'[Len(hist')].op = "call" /\ matches[e][m] # <<>> /\ Head(matches[e][m]).once
                       /\ Head(matches[e][m]).tag # TwinTag
                       /\ \E j \in DOMAIN last'.replies : last'.replies[j].tag = Head(matches[e][m]).tag)
                      => Head(matches[e][m]).tag \notin {matches'[e][m][j].tag : j \in DOMAIN matches'[e][m]}]_vars
TypeOK == nextTag >= 1
=============================================================================
