SPECIFICATION Spec
CONSTANTS
  ElemTypes <- TypesSmall
  N = 4
INVARIANT TypeOK
INVARIANT OrderKept
INVARIANT ExactlyOnce
INVARIANT NeverTwice
INVARIANT Sequential
CHECK_DEADLOCK FALSE
INVARIANT EmitScn
