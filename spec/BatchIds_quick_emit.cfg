INVARIANT EmitScn
SPECIFICATION Spec
CONSTANTS
  IdAlpha <- IdsQuick
  MaxOps = 3
  MaxIds = 4
  MaxExtend = 2
CONSTRAINT Bound
CHECK_DEADLOCK FALSE
