INIT InitQuick
NEXT Next
CONSTANTS
  Deviations = {}
INVARIANT StrictRejects
INVARIANT MalformedIsDeser
INVARIANT RelatedLinked
INVARIANT PositionalByRequestOrder
CHECK_DEADLOCK FALSE
