INIT TraceInit
NEXT TraceNext
CONSTRAINT TraceConstraint
POSTCONDITION Post
CHECK_DEADLOCK FALSE
CONSTANTS
  ElemTypes <- EmptySet
  N = 0
