---- MODULE Disp_c01_quick ----
EXTENDS DispatcherMC
MyInit == InitC01(2)
====
