INIT Init
NEXT Next
CONSTANTS
  Corpus <- C12
  MaxLen = 4
  Deviations = {}
CONSTRAINT Bound
INVARIANT NothingRetained
INVARIANT BoundedCache
PROPERTY Stateless
CHECK_DEADLOCK FALSE
