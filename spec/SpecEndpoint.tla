----------------------------- MODULE SpecEndpoint -----------------------------
(***************************************************************************)
(* The integrations serve the generated OpenAPI / OpenRPC document over     *)
(* HTTP (pjrpc/server/integration/{aiohttp,flask}.py _generate_spec /       *)
(* generate_spec): GET <base><spec path> -> 200, JSON, the document for ALL *)
(* endpoints of the application; every GET gives the same document, which   *)
(* is the one Specification.schema() gives when called directly.            *)
(***************************************************************************)
EXTENDS Naturals, Sequences, FiniteSets, TLC
VARIABLES scn,     \* [integ, kind, endpoints \in {"main", "main+api", "main+late"}, base]
                   \* "main+late": the additional endpoint is added AFTER the application generated its document once
          gets     \* Seq of observed replies
vars == <<scn, gets>>
InitWith(s) == scn = s /\ gets = <<>>
\* methods: f1, f4 on the main endpoint, f2 on the additional endpoint "/api"
Keys == IF scn.kind = "openrpc" THEN {"f1", "f4"}                                      \* OpenRPC documents the root endpoint
        ELSE {"base#f1", "base#f4"} \cup (IF scn.endpoints \in {"main+api", "main+late"} THEN {"base/api#f2"} ELSE {})
\* what the early generation (before the additional endpoint existed) had to document
EarlyKeys == IF scn.kind = "openrpc" THEN {"f1", "f4"} ELSE {"base#f1", "base#f4"}
ExpectedReply == [status |-> 200, ctype |-> "json", keys |-> Keys, same_as_direct |-> TRUE]
Get == gets' = Append(gets, ExpectedReply) /\ UNCHANGED scn
\* With a web UI configured (scn.ui: swagger / rapidoc / redoc; OpenAPI only) the application also serves the UI's index page at
\* <base><ui path>/ and .../index.html: 200, HTML, and the page points at THIS application's specification URL.
HasUi == "ui" \in DOMAIN scn /\ scn.ui # "none"
ExpectedUi == [status |-> 200, ctype |-> "html", points_at_spec |-> TRUE]
Next == Get
Stable == \A i, j \in DOMAIN gets : gets[i] = gets[j]
Complete == \A i \in DOMAIN gets : gets[i].keys = Keys
=============================================================================
