------------------------------ MODULE Registry ------------------------------
(***************************************************************************)
(* Method registries (pjrpc/server/dispatcher.py MethodRegistry add /       *)
(* add_methods / view / merge, BaseDispatcher add / add_methods / view).    *)
(* A method name is a sequence of dot-separated segments; joining prefixes  *)
(* is concatenation.  map[r] is what registry r holds (implementation       *)
(* shape); prov[r] is the list of registrations that reached r, each with   *)
(* the chain of prefixes it came through (property shape).                  *)
(***************************************************************************)
EXTENDS Naturals, Sequences, FiniteSets, TLC

CONSTANTS Regs,          \* registry ids; "d" is the dispatcher's own (prefix-less) registry
          PrefixOf,      \* PrefixOf[r] : Seq of segments (<<>> = no prefix)
          MaxOps, Ops
VARIABLES map,           \* map[r] : function from names (Seq of segments) to targets
          prov,          \* prov[r] : Seq of [target, own : Seq, through : Seq]
          hist
vars == <<map, prov, hist>>

Funcs == [f |-> <<"f">>, g |-> <<"g">>]                         \* plain functions and their __name__
\* public callables of the view classes, in the order a view exposes them (alphabetical):
\*   V; W(V) - a view derived from a view, adding `extra`; M(ViewMixin, Health) - handlers inherited from a plain base class
\*   `memo` is a public callable that is not a plain function (an lru_cache wrapper object): exposed like the others
ViewMembers == [V |-> <<"V_get", "V_memo", "V_put">>, W |-> <<"W_extra", "W_get", "W_memo", "W_put">>, M |-> <<"M_own", "M_ping">>]
ViewPublic == [V_get |-> <<"get">>, V_memo |-> <<"memo">>, V_put |-> <<"put">>, W_extra |-> <<"extra">>, W_get |-> <<"get">>,
               W_memo |-> <<"memo">>, W_put |-> <<"put">>,
               M_own |-> <<"own">>, M_ping |-> <<"ping">>]
\* every class also has: _hid (private callable), __magic__ (dunder callable), const (public, not callable): never exposed

Empty == [x \in {} |-> "none"]
Put(m, n, t) == [x \in (DOMAIN m) \cup {n} |-> IF x = n THEN t ELSE m[x]]
InitState == /\ map = [r \in Regs |-> Empty] /\ prov = [r \in Regs |-> <<>>] /\ hist = <<>>

Reg(r, t, own) ==       \* a registration made directly on r
    /\ map' = [map EXCEPT ![r] = Put(@, PrefixOf[r] \o own, t)]
    /\ prov' = [prov EXCEPT ![r] = Append(@, [target |-> t, own |-> own, through |-> PrefixOf[r]])]

RECURSIVE PutAll(_, _)
PutAll(m, recs) == IF recs = <<>> THEN m ELSE PutAll(Put(m, Head(recs).name, Head(recs).target), Tail(recs))

\* add(f) / add_methods(f) / dispatcher.add(f): the function's own name;  add(f, name=n): the explicit name
Add(r, fn) == Reg(r, fn, Funcs[fn])
AddNamed(r, fn, n) == Reg(r, fn, n)
\* view(V, prefix=vp): every public callable of V under prefix . view prefix . member name
View(r, vp, c) ==
    LET ms == ViewMembers[c] IN
    /\ map' = [map EXCEPT ![r] = PutAll(@, [j \in DOMAIN ms |-> [name |-> PrefixOf[r] \o vp \o ViewPublic[ms[j]], target |-> ms[j]]])]
    /\ prov' = [prov EXCEPT ![r] = @ \o [j \in DOMAIN ms |-> [target |-> ms[j], own |-> ViewPublic[ms[j]], through |-> PrefixOf[r] \o vp]]]
\* merge(r, o) / dispatcher.add_methods(o): everything o holds, re-prefixed with r's prefix, in o's insertion order
NamesInOrder(o) == \* names of map[o] in the order of their FIRST registration (dict insertion order)
    LET ns == [j \in DOMAIN prov[o] |-> prov[o][j].through \o prov[o][j].own] IN
    SelectSeq([j \in DOMAIN ns |-> [name |-> ns[j], first |-> \A k \in 1..(j-1) : ns[k] # ns[j]]], LAMBDA x : x.first)
Merge(r, o) ==
    LET names == NamesInOrder(o) IN
    /\ r # o
    /\ map' = [map EXCEPT ![r] = PutAll(@, [j \in DOMAIN names |-> [name |-> PrefixOf[r] \o names[j].name, target |-> map[o][names[j].name]]])]
    /\ prov' = [prov EXCEPT ![r] = @ \o [j \in DOMAIN names |->
                   LET last == CHOOSE k \in DOMAIN prov[o] : /\ prov[o][k].through \o prov[o][k].own = names[j].name
                                                             /\ \A k2 \in DOMAIN prov[o] : (prov[o][k2].through \o prov[o][k2].own = names[j].name) => k2 <= k
                   IN [target |-> prov[o][last].target, own |-> prov[o][last].own, through |-> PrefixOf[r] \o prov[o][last].through]]]

Do(op) == /\ hist' = Append(hist, op)
          /\ CASE op.op = "add"      -> Add(op.r, op.fn)
               [] op.op = "addnamed" -> AddNamed(op.r, op.fn, op.name)
               [] op.op = "view"     -> View(op.r, op.vp, op.cls)
               [] op.op = "merge"    -> Merge(op.r, op.o)
Next == \E op \in Ops : Do(op)
Spec == InitState /\ [][Next]_vars
Bound == Len(hist) <= MaxOps

(******************************* properties *********************************)
\* the callable names are exactly: prefixes it was added through, then the explicit / own name; the latest registration wins
NameOf(p) == p.through \o p.own
NamesAreFormula == \A r \in Regs :
    /\ DOMAIN map[r] = {NameOf(prov[r][j]) : j \in DOMAIN prov[r]}
    /\ \A n \in DOMAIN map[r] :
          LET last == CHOOSE j \in DOMAIN prov[r] : NameOf(prov[r][j]) = n /\ \A k \in DOMAIN prov[r] : NameOf(prov[r][k]) = n => k <= j
          IN map[r][n] = prov[r][last].target
\* views expose their public callables only
ViewsExposePublicOnly == \A r \in Regs : \A n \in DOMAIN map[r] : map[r][n] \in (DOMAIN Funcs) \cup (DOMAIN ViewPublic)
\* any name that was not registered is not reachable
Lookup(n) == IF n \in DOMAIN map["d"] THEN map["d"][n] ELSE "none"
=============================================================================
