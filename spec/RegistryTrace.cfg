INIT TraceInit
NEXT TraceNext
CONSTRAINT TraceConstraint
POSTCONDITION Post
CHECK_DEADLOCK FALSE
CONSTANTS
  Regs <- R4T
  PrefixOf <- PfxT
  MaxOps = 0
  Ops <- EmptySet
