INIT TraceInit
NEXT TraceNext
CONSTRAINT TraceConstraint
POSTCONDITION Post
CHECK_DEADLOCK FALSE
CONSTANTS
  MaxStray = 3
