INIT Init
NEXT Next
CONSTANTS
  Corpus <- C8
  MaxLen = 4
  Deviations = {}
CONSTRAINT Bound
INVARIANT NothingRetained
INVARIANT BoundedCache
PROPERTY Stateless
CHECK_DEADLOCK FALSE
