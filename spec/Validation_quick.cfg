INIT InitQuick
NEXT Next
INVARIANT ExecIffConforms
INVARIANT ArgsUnchangedOrCoerced
INVARIANT ExcludedNotSettable
CHECK_DEADLOCK FALSE
