------------------------------ MODULE MockerMC ------------------------------
EXTENDS Mocker, Json
EmitScn == (Bound /\ Len(hist) = MaxOps) =>
              PrintT(<<"SCN", ToJson([passthrough |-> passthrough, hist |-> hist])>>)
E2 == {"e1", "e2"}
M2 == {"m1", "m2"}
Rq(m, i, p) == [m |-> m, id |-> i, params |-> p]
AddOps == {[op |-> "add", e |-> "e1", m |-> m, kind |-> k, once |-> o, twin |-> FALSE] : m \in M2, k \in {"result", "error", "callback"}, o \in BOOLEAN}
          \cup {[op |-> "add", e |-> "e2", m |-> "m1", kind |-> "result", once |-> TRUE, twin |-> FALSE]}
          \cup {[op |-> "add", e |-> "e1", m |-> "m1", kind |-> "result", once |-> o, twin |-> TRUE] : o \in BOOLEAN}
ReplaceOps == {[op |-> "replace", e |-> "e1", m |-> m, idx |-> i, kind |-> "result", once |-> o] : m \in M2, i \in {0, 1}, o \in BOOLEAN}
              \cup {[op |-> "replace", e |-> "e1", m |-> "m1", idx |-> i, kind |-> "error", once |-> FALSE] : i \in {-1, -2}}
              \cup {[op |-> "replace", e |-> "e2", m |-> "m1", idx |-> 0, kind |-> "error", once |-> FALSE]}
RemoveOps == {[op |-> "remove", e |-> "e1", m |-> m] : m \in {"all", "m1", "m2"}} \cup {[op |-> "remove", e |-> "e2", m |-> "all"]}
ResetOps == {[op |-> "reset"]}
CallOps == {[op |-> "call", e |-> e, shape |-> "single", reqs |-> <<Rq(m, i, "pos")>>] : e \in E2, m \in M2, i \in {"i0", "i1"}}
           \cup {[op |-> "call", e |-> "e1", shape |-> "single", reqs |-> <<Rq("m1", "s_empty", "named")>>],
                 [op |-> "call", e |-> "e1", shape |-> "batch", reqs |-> <<Rq("m1", "i1", "pos"), Rq("m1", "i0", "named"), Rq("m2", "s_empty", "pos")>>],
                 [op |-> "call", e |-> "e1", shape |-> "batch", reqs |-> <<Rq("m1", "i1", "pos"), Rq("m1", "i2", "pos"), Rq("m1", "i3", "pos")>>],
                 [op |-> "call", e |-> "e2", shape |-> "batch", reqs |-> <<Rq("m1", "i1", "pos"), Rq("m2", "i0", "pos")>>]}
OpsAll == AddOps \cup ReplaceOps \cup RemoveOps \cup ResetOps \cup CallOps
OpsSmall == {[op |-> "add", e |-> "e1", m |-> "m1", kind |-> k, once |-> o, twin |-> FALSE] : k \in {"result", "callback"}, o \in BOOLEAN}
            \cup {[op |-> "add", e |-> "e1", m |-> "m2", kind |-> "error", once |-> FALSE, twin |-> FALSE],
                  [op |-> "replace", e |-> "e1", m |-> "m1", idx |-> 1, kind |-> "result", once |-> TRUE],
                  [op |-> "replace", e |-> "e2", m |-> "m1", idx |-> 0, kind |-> "error", once |-> FALSE],
                  [op |-> "remove", e |-> "e1", m |-> "m1"], [op |-> "remove", e |-> "e1", m |-> "m2"], [op |-> "remove", e |-> "e2", m |-> "all"], [op |-> "reset"],
                  [op |-> "call", e |-> "e1", shape |-> "single", reqs |-> <<Rq("m1", "i0", "pos")>>],
                  [op |-> "call", e |-> "e1", shape |-> "single", reqs |-> <<Rq("m2", "i1", "named")>>],
                  [op |-> "call", e |-> "e2", shape |-> "single", reqs |-> <<Rq("m1", "s_empty", "pos")>>],
                  [op |-> "call", e |-> "e1", shape |-> "batch", reqs |-> <<Rq("m1", "i1", "pos"), Rq("m1", "i0", "named"), Rq("m2", "s_empty", "pos")>>]}
\* identically configured once-patches followed by a different patch, then calls: all histories of length 6 over three operations,
\* and replacement at a negative index among several patches
OpsTwins == {[op |-> "add", e |-> "e1", m |-> "m1", kind |-> "result", once |-> TRUE, twin |-> TRUE],
             [op |-> "add", e |-> "e1", m |-> "m1", kind |-> "error", once |-> FALSE, twin |-> FALSE],
             [op |-> "replace", e |-> "e1", m |-> "m1", idx |-> -1, kind |-> "callback", once |-> FALSE],
             [op |-> "call", e |-> "e1", shape |-> "single", reqs |-> <<Rq("m1", "i1", "pos")>>]}
=============================================================================
