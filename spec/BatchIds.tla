------------------------------ MODULE BatchIds ------------------------------
(***************************************************************************)
(* BatchRequest / BatchResponse as containers with an id set                *)
(* (pjrpc/common/v20.py append / extend / _add_ids).  `items` is the list   *)
(* the batch exposes (iteration, to_json, len), `idset` the ids it has      *)
(* recorded for the duplicate check.  Histories of append / extend.         *)
(***************************************************************************)
EXTENDS Naturals, Sequences, FiniteSets, TLC

CONSTANTS IdAlpha,      \* ids incl. "none" (notification / null-id response)
          MaxOps, MaxIds, MaxExtend

VARIABLES kind,         \* "breq" | "bresp"
          strict,       \* BatchRequest(strict=...) / BatchResponse(strict=...): FALSE switches the duplicate check off
          items,        \* Seq(IdAlpha): ids of the contained messages, in order
          idset,        \* ids recorded by the duplicate check
          hist,         \* the operations so far (scenario)
          last          \* verdict of the last operation
vars == <<kind, strict, items, idset, hist, last>>

SeqsUpTo(S, n) == UNION {[1..k -> S] : k \in 0..n}
Real(s) == {s[i] : i \in DOMAIN s} \ {"none"}
DupWithin(s) == \E i, j \in DOMAIN s : i < j /\ s[i] # "none" /\ s[i] = s[j]

InitWith(k, st) == kind = k /\ strict = st /\ items = <<>> /\ idset = {} /\ hist = <<>> /\ last = "none"
Init == \E k \in {"breq", "bresp"}, st \in BOOLEAN : InitWith(k, st)

\* _add_ids works on a copy: a failing operation changes nothing
Add(opname, s) ==
    /\ hist' = Append(hist, [op |-> opname, ids |-> s])
    /\ IF strict /\ (DupWithin(s) \/ Real(s) \cap idset # {})
       THEN last' = "Identity" /\ UNCHANGED <<items, idset>>
       ELSE last' = "Ok" /\ items' = items \o s /\ idset' = (IF strict THEN idset \cup Real(s) ELSE idset)
    /\ UNCHANGED <<kind, strict>>

AppendOp(i) == Add("append", <<i>>)
ExtendOp(s) == Add("extend", s)

Next == \/ \E i \in IdAlpha : AppendOp(i)
        \/ \E s \in SeqsUpTo(IdAlpha, MaxExtend) : ExtendOp(s)
Spec == Init /\ [][Next]_vars

RECURSIVE SumIds(_)
SumIds(h) == IF h = <<>> THEN 0 ELSE Len(Head(h).ids) + SumIds(Tail(h))
Bound == Len(hist) <= MaxOps /\ SumIds(hist) <= MaxIds

(****************************** properties *********************************)
IdsConsistent == strict => idset = Real(items)      \* what is recorded is what is contained
NoDuplicates  == strict => ~DupWithin(items)
\* C06: a failed append / extend raises the identity error and leaves the batch unchanged
FailureAtomic == [][last' = "Identity" => (items' = items /\ idset' = idset)]_vars
\* ... and it fails exactly when an id would be duplicated
FailsIffDup   == [][\A s \in SeqsUpTo(IdAlpha, MaxExtend) :
                       (hist' = Append(hist, [op |-> "extend", ids |-> s]) \/
                        (Len(s) = 1 /\ hist' = Append(hist, [op |-> "append", ids |-> s])))
                       => ((last' = "Identity") = (strict /\ DupWithin(items \o s)))]_vars
=============================================================================
