INIT TraceInit
NEXT TraceNext
CONSTRAINT TraceConstraint
POSTCONDITION Post
CHECK_DEADLOCK FALSE
CONSTANTS
  Deviations <- DevKwRebind
  MaxP = 0
  MaxPos = 0
