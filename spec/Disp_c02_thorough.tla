---- MODULE Disp_c02_thorough ----
EXTENDS DispatcherMC
MyInit == InitC02Thorough
====
