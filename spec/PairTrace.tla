------------------------------ MODULE PairTrace ------------------------------
(***************************************************************************)
(* C11: the two halves of pjrpc behave identically.  Every scenario of the  *)
(* dispatcher / client corpora is executed on both halves; both executions  *)
(* are validated against the SAME specification (whose expected outcomes    *)
(* never mention the half), and in addition the two recorded observation    *)
(* sequences (canonical JSON of the events, half-specific fields removed)   *)
(* must be equal - this also pins what the specification leaves open        *)
(* (messages of library errors, don't-care regions).                        *)
(***************************************************************************)
EXTENDS TraceBase
VARIABLE agreed
TraceInit == tid \in 1..NTraces /\ l = 1 /\ agreed = 0
TPair == IsEvent("Pair") /\ E.a = E.b /\ agreed' = agreed + 1
TraceNext == TPair
TraceConstraint == Progress
=============================================================================
