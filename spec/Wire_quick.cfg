SPECIFICATION Spec
CONSTANTS
  ReqDocs <- ReqDocsQuick
  ErrDocs <- ErrDocsQuick
  RespDocs <- RespDocsQuick
  BatchReqDocs <- BatchReqDocsQuick
  BatchRespDocs <- BatchRespDocsQuick
  Bases <- BasesAll
  ReqMsgs <- ReqMsgsFull
  ErrMsgs <- ErrMsgsFull
  RespMsgs <- RespMsgsFull
  BatchReqMsgs <- BatchReqMsgsQuick
  BatchRespMsgs <- BatchRespMsgsQuick
INVARIANT RoundTrip
INVARIANT FixPoint
INVARIANT ReparseStable
INVARIANT WireExact
INVARIANT ClassOfCode
INVARIANT StrictRequest
INVARIANT StrictResponse
INVARIANT StrictError
INVARIANT StrictBatchRequest
INVARIANT Total
INVARIANT OnlyBatchesRaiseIdentity
CHECK_DEADLOCK FALSE
