------------------------------- MODULE History -------------------------------
(***************************************************************************)
(* C13: requests served by ONE dispatcher, one after the other (or from     *)
(* several threads).  Between requests a dispatcher holds only its          *)
(* registry, middleware chain and error-handler table (`dstate`); serving   *)
(* a request must not change them, and must leave nothing behind that was   *)
(* created for the request (contexts, views, cache entries).                *)
(* Every single dispatch of a history is validated against Dispatcher.tla   *)
(* on its own: its reply may depend on its text and the configuration only. *)
(***************************************************************************)
EXTENDS Naturals, Sequences, FiniteSets, TLC
CONSTANTS Corpus,        \* indices of the request corpus
          MaxLen,
          Deviations     \* known deviations switched on
VARIABLES hist,          \* indices served so far
          dstate,        \* what the dispatcher keeps between requests (abstractly: a version number of its tables)
          flavour,       \* how the addressed method is written: "func" "view" "view_ctx" "schema" "typed"
          retained,      \* request-scoped objects (contexts) still referenced by the library after the dispatch returned
          cache          \* heap objects the library keeps beyond the requests (after the warm-up of its per-method caches)
vars == <<hist, dstate, flavour, retained, cache>>

InitWith(fl) == hist = <<>> /\ dstate = 0 /\ flavour = fl /\ retained = 0 /\ cache = 0
\* serving request c: tables untouched, nothing retained, the heap does not grow
ViewLeak == "ViewSignatureCache" \in Deviations /\ flavour \in {"view", "view_ctx", "view_typed", "view_schema"}
Serve(c) == /\ hist' = Append(hist, c)
            /\ dstate' = dstate
            /\ \/ ~ViewLeak /\ retained' = 0 /\ cache' = cache
               \* Known deviation: the signature cache is keyed by the per-request bound view method
               \/ ViewLeak /\ retained' = (IF flavour = "view_ctx" THEN retained + 1 ELSE 0) /\ cache' = cache + 1
            /\ UNCHANGED flavour
Next == \E c \in Corpus : Serve(c)
Bound == Len(hist) <= MaxLen
Stateless == [][dstate' = dstate]_vars
NothingRetained == "ViewSignatureCache" \notin Deviations => retained = 0
BoundedCache == "ViewSignatureCache" \notin Deviations => cache = 0
=============================================================================
