--------------------------- MODULE ValidationTrace ---------------------------
(* Trace validation of dispatches to validated methods (JsonSchemaValidator / PydanticValidator) against Validation. *)
EXTENDS Validation, TraceBase
TraceInit == tid \in 1..NTraces /\ l = 1 /\ InitWith(Traces[tid].scn.scn)
\* spec sanity (DESIGN 3.2): the bare value checked against the bare fragment (jsonschema.validate) / the bare annotation
\* (pydantic TypeAdapter strict and lax).  E.cls[j] \in {"yes","no","co"} for the j-th provided parameter.
TSanity == /\ IsEvent("Sanity") /\ pc = "recv"
           /\ \A j \in 1..N : Provided(j) =>
                 IF scn.validator = "schema" THEN E.cls[j] = Conf(j)
                 ELSE (Conf(j) = "yes" => E.cls[j] = "yes") /\ (Conf(j) = "no" => E.cls[j] = "no")
           /\ UNCHANGED vars
TExec  == IsEvent("Exec") /\ Exec([ran |-> TRUE, p1 |-> E.p1, p2 |-> E.p2, p3 |-> E.p3, extra |-> E.extra])
TReply == IsEvent("Reply") /\ \/ (ReplyResult /\ E.r = "result")
                              \/ (ReplyInvalid /\ E.r = "c_m32602" /\ E.data_encodable = TRUE)
TraceNext == TSanity \/ TExec \/ TReply
TraceConstraint == ExecIffConforms /\ ArgsUnchangedOrCoerced /\ ExcludedNotSettable /\ Progress
=============================================================================
