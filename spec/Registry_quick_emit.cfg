INIT InitState
NEXT Next
CONSTANTS
  Regs <- R4
  PrefixOf <- Pfx
  MaxOps = 4
  Ops <- OpsSmall
CONSTRAINT Bound
CHECK_DEADLOCK FALSE
INVARIANT EmitScn
