INIT Init
NEXT Next
INVARIANT OnePost
INVARIANT BackendIrrelevant
CHECK_DEADLOCK FALSE
