INIT Init
NEXT Next
CONSTANTS
  MaxP = 4
  Deviations = {}
  KindSet <- AllKinds
  InputKinds <- BothInputs
  MaxPos = 5
INVARIANT NoBindNoRun
INVARIANT ArgsExact
INVARIANT CtxIsServers
INVARIANT ResultUnchanged
CHECK_DEADLOCK FALSE
