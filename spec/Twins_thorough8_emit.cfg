INIT Init
NEXT Next
CONSTANTS
  Corpus <- C8
  MaxLen = 4
  Deviations = {}
CONSTRAINT Bound
CHECK_DEADLOCK FALSE
INVARIANT EmitScn
