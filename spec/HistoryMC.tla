------------------------------ MODULE HistoryMC ------------------------------
EXTENDS History, Json
C12 == 1..14
C8 == 1..8
C22 == 1..41
Init == InitWith("func")
EmitScn == (Bound /\ Len(hist) = MaxLen) => PrintT(<<"SCN", ToJson([hist |-> hist])>>)
=============================================================================
