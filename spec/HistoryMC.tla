------------------------------ MODULE HistoryMC ------------------------------
EXTENDS History, Json
C12 == 1..12
Init == InitWith("func")
EmitScn == (Bound /\ Len(hist) = MaxLen) => PrintT(<<"SCN", ToJson([hist |-> hist])>>)
=============================================================================
