------------------------------- MODULE RetryMC -------------------------------
EXTENDS Retry, Json
NoNext == FALSE /\ UNCHANGED vars
EmptyC == {}
\* refinement mapping onto the counting core RetryCount.tla (whose inductive invariant Apalache discharges for every n):
\* n <- N, slept <- Len(sleeps), phase <- Ph.  (RetryCount!IndInv /\ Goal restated, because a CONSTANT cannot be
\* instantiated by the state-level expression N.)
Ph == IF phase \in {"begin", "send"} THEN "send" ELSE IF phase = "done" THEN "done" ELSE "decide"
CountingCore == /\ 0 <= used /\ used <= N /\ Len(sleeps) = used
                /\ (Ph = "send" => sent = used)
                /\ (Ph \in {"decide", "done"} => sent = used + 1)
                /\ sent <= N + 1
EmitScn == (phase = "done" /\ Len(past) + 1 = cfg.rounds) => PrintT(<<"SCN", ToJson([cfg |-> cfg, scripts |-> Append(past, script)])>>)

BO(f, a, b, m, j) == [fam |-> f, a |-> a, b |-> b, max |-> m, jit |-> j]
B1 == BO("periodic", 2, 0, -1, <<>>)
B2 == BO("periodic", 3, 0, -1, <<1, 0, 2>>)
B3 == BO("exponential", 1, 2, -1, <<>>)
B4 == BO("exponential", 2, 3, 5, <<1, 1, 1>>)
B5 == BO("fibonacci", 1, 0, 1, <<>>)            \* the library default cap 1.0
B6 == BO("fibonacci", 3, 0, 7, <<1, 2, 1, 1>>)      \* cap reached at the 2nd delay, with non-zero jitter
B7 == BO("exponential", 4, 2, 3, <<>>)          \* cap below the first delay
B8 == BO("exponential", 5, 1, 4, <<-1, 0, -2, 1>>)  \* factor 1, negative jitter, cap reached
B9 == BO("exponential", 3, 1, -1, <<>>)              \* factor 1, no cap: constant delays
B10 == BO("periodic", 2, 0, -1, <<0, 3, 0>>)
Backoffs == {B1, B2, B3, B4, B5, B6, B7, B8, B9, B10}
St(n, c, e, bo) == [k |-> "strategy", s |-> [n |-> n, codes |-> c, excs |-> e, bo |-> bo]]
None_ == [k |-> "none", s |-> NoStrategy.s]
Unset == [k |-> "unset", s |-> NoStrategy.s]
NoStrategyS == [n |-> 0, codes |-> "na", excs |-> "na", bo |-> BO("na", 0, 0, -1, <<>>)]
NoneK(k) == [k |-> k, s |-> NoStrategyS]
Other == St(1, "one", "none", B1)
CE == {<<"one", "none">>, <<"none", "one">>, <<"several", "several">>, <<"empty", "empty">>, <<"none", "none">>, <<"one", "one">>}
Sources(S) == {<<S, NoneK("unset")>>, <<NoneK("none"), S>>, <<Other, S>>, <<S, NoneK("none")>>, <<NoneK("none"), NoneK("unset")>>}
C(kd, rq, cl, pr, tr, cm) == [kind |-> kd, req |-> rq, client |-> cl, perreq |-> pr, perreq2 |-> pr, tracers |-> tr, ctxmode |-> cm, rounds |-> 1]
R2(c) == [c EXCEPT !.rounds = 2]
Kinds2 == {"sync", "async"}
Reqs == {"single", "batch", "notification"}

\* C09: (codes, excs) x n x strategy source with one backoff; all backoffs x n with one (codes, excs)
InitC09(maxn) ==
    \/ \E kd \in Kinds2, rq \in Reqs, n \in 0..maxn, ce \in CE, bo \in {B2} :
          \E src \in Sources(St(n, ce[1], ce[2], bo)) : InitWith(C(kd, rq, src[1], src[2], 0, "default"))
    \/ \E kd \in Kinds2, rq \in Reqs, n \in 1..(maxn + 1), bo \in Backoffs :
          InitWith(C(kd, rq, St(n, "one", "one", bo), NoneK("unset"), 0, "default"))
    \* two requests one after the other on the SAME client / strategy objects (no jitter: a scripted jitter function is stateful)
    \/ \E kd \in Kinds2, rq \in {"single"}, n \in 1..(IF maxn > 2 THEN 2 ELSE 1), bo \in {B1, B9} :
          \/ InitWith(R2(C(kd, rq, St(n, "one", "one", bo), NoneK("unset"), 0, "default")))
          \/ InitWith(R2(C(kd, rq, NoneK("none"), St(n, "one", "one", bo), 0, "default")))
          \* the second request brings another per-request strategy: the same backoff and codes, but other exception types / none
          \/ \E e2 \in {"none", "several"} :
                InitWith([R2(C(kd, rq, NoneK("none"), St(n, "one", "one", bo), 0, "default")) EXCEPT !.perreq2 = St(n, "one", e2, bo)])
\* C19: tracers x context mode x all outcomes in the sequences the strategies permit
InitC19(maxn) ==
    \E kd \in Kinds2, rq \in Reqs, n \in 0..maxn, tr \in 0..3, cm \in {"caller", "default"} :
       \/ InitWith(C(kd, rq, St(n, "one", "one", B1), NoneK("unset"), tr, cm))
       \/ n = 0 /\ InitWith(C(kd, rq, NoneK("none"), NoneK("unset"), tr, cm))
       \/ n = 1 /\ tr = 1 /\ InitWith(R2(C(kd, rq, St(n, "one", "one", B1), NoneK("unset"), tr, cm)))
=============================================================================
