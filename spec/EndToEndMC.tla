----------------------------- MODULE EndToEndMC -----------------------------
EXTENDS EndToEnd, Json
NoNext == FALSE /\ UNCHANGED vars
EmitScn == pc = "start" => PrintT(<<"SCN", ToJson([prog |-> prog])>>)
Behs == {"echo", "typed", "typednull", "unreg", "exc"}
BehsSingle == Behs \cup {"typedsrv", "unregsrv", "_echo"}      \* error codes inside the reserved server-error range -32099..-32000;
                                                                 \* _echo: echo registered under a name that starts with an underscore
Args == {"none", "pos", "named", "posdict"}
Cl(b, a, n) == [beh |-> b, args |-> a, notif |-> n]
P(nt, cs, ig, st, ck, dk) == [notation |-> nt, calls |-> cs, idgen |-> ig, strict |-> st, ck |-> ck, dk |-> dk]
IdGens == {"sequential", "sequential0", "randint", "random", "uuid", "empty_string"}   \* sequential0: ids 0, 1, ..; empty_string: the id ""
Kinds == {"sync", "async"}
DKinds == {"sync", "async", "async_plain"}     \* async_plain: the asynchronous dispatcher serving plain (non-coroutine) functions
Combos == {<<"sequential", TRUE, "sync", "sync">>, <<"random", TRUE, "async", "async">>,
           <<"randint", FALSE, "sync", "async">>, <<"uuid", TRUE, "async", "sync">>, <<"sequential0", TRUE, "sync", "async_plain">>,
           \* the same batch programs on the OTHER client half (C11 pairs executions that differ in the halves only)
           <<"sequential", TRUE, "async", "sync">>, <<"randint", FALSE, "async", "async">>}
CallsFull  == {Cl(b, a, n) : b \in Behs, a \in Args, n \in BOOLEAN}
CallsSmall == {Cl("echo", "posdict", FALSE), Cl("echo", "pos", FALSE), Cl("echo", "named", FALSE), Cl("typed", "none", FALSE), Cl("exc", "pos", FALSE),
               Cl("echo", "pos", TRUE), Cl("exc", "none", TRUE)}
CallsSrv == {Cl("typedsrv", "pos", FALSE), Cl("unregsrv", "none", FALSE), Cl("echo", "pos", FALSE), Cl("_echo", "named", FALSE)}
AllowedIn(nt, c) == CASE nt = "batch_proxy"   -> ~c.notif
                      [] nt = "batch_getitem" -> ~c.notif /\ c.args # "named"
                      [] OTHER -> TRUE
InitE2E(n) ==
    \/ \E nt \in SingleNotations, b \in BehsSingle, a \in Args, ig \in IdGens, st \in BOOLEAN, ck \in Kinds, dk \in DKinds :
          InitWith(P(nt, <<Cl(b, a, FALSE)>>, ig, st, ck, dk))
    \/ \E b \in Behs, a \in Args, st \in BOOLEAN, ck \in Kinds, dk \in Kinds :
          InitWith(P("notify", <<Cl(b, a, TRUE)>>, "sequential", st, ck, dk))
    \/ \E nt \in BatchNotations, cb \in Combos :
          \/ \E c1 \in CallsFull : AllowedIn(nt, c1) /\ InitWith(P(nt, <<c1>>, cb[1], cb[2], cb[3], cb[4]))
          \/ \E c1 \in CallsFull, c2 \in CallsFull : AllowedIn(nt, c1) /\ AllowedIn(nt, c2)
                /\ InitWith(P(nt, <<c1, c2>>, cb[1], cb[2], cb[3], cb[4]))
          \/ \E c1 \in CallsSrv, c2 \in CallsSrv : AllowedIn(nt, c1) /\ AllowedIn(nt, c2) /\ InitWith(P(nt, <<c1, c2>>, cb[1], cb[2], cb[3], cb[4]))
          \/ \E m \in 3..n : \E s \in [1..m -> CallsSmall] : (\A j \in 1..m : AllowedIn(nt, s[j]))
                /\ InitWith(P(nt, s, cb[1], cb[2], cb[3], cb[4]))
InitQuick == InitE2E(3)
InitThorough == InitE2E(4)
=============================================================================
