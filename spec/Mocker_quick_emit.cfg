SPECIFICATION Spec
CONSTANTS
  Endpoints <- E2
  Methods <- M2
  MaxOps = 3
  Ops <- OpsSmall
CONSTRAINT Bound
CHECK_DEADLOCK FALSE
INVARIANT EmitScn
