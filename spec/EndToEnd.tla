------------------------------ MODULE EndToEnd ------------------------------
(***************************************************************************)
(* A client program talking to the library's own dispatcher through an      *)
(* in-process transport (C07).  prog = which notation the caller used and   *)
(* the calls it made.  Build -> Send -> Serve (per element) -> Deliver.     *)
(* The expected result is written as a function of the CALLS only - it      *)
(* mentions neither the notation, nor the id generator, nor the sync/async  *)
(* pairing - so "all notations are interchangeable" is a checked theorem.   *)
(***************************************************************************)
EXTENDS Naturals, Sequences, FiniteSets, TLC
CONSTANTS Deviations
VARIABLES prog,      \* [notation, calls : Seq([beh, args, notif]), idgen, strict, ck, dk]
          pc,        \* "start" "built" "sent" "served" "done"
          wire,      \* the request documents put on the wire: Seq of [k, els : Seq([method, args, hasid])]
          execLog,   \* server-side executions [beh, args] in order
          out        \* what the caller got
vars == <<prog, pc, wire, execLog, out>>

SingleNotations == {"call", "dunder_call", "proxy", "send"}
BatchNotations  == {"batch_add", "batch_call", "batch_proxy", "batch_getitem"}
Nothing == [k |-> "nothing", vals |-> <<>>, err |-> "na"]

\* what the function body receives: positional and named passing of the same values are the same call
Received(c) == CASE c.args = "none" -> "none" [] c.args = "posdict" -> "dict" [] OTHER -> "ab"
\* what a DIRECT invocation of the registered function gives
ValueOf(c) == CASE c.args = "none" -> "v_none" [] c.args = "posdict" -> "v_dict" [] OTHER -> "v_ab"     \* posdict: ONE positional argument that is a dict
ErrOf(c) == CASE c.beh = "typed" -> "typed_2001"       \* registered class, code 2001, message, data
              [] c.beh = "typednull" -> "typed_2001_null"   \* the same with data null (null is not absent)
              [] c.beh = "unreg" -> "base_777"         \* no class registered for 777: the client's base class
              [] c.beh = "typedsrv" -> "typed_m32001"  \* a user class registered for a code inside the reserved server range
              [] c.beh = "unregsrv" -> "base_m32050"   \* an unregistered code inside that range: the client's base class
              [] c.beh = "exc"   -> "server_32000"     \* any other exception: ServerError, no data
              [] OTHER -> "na"
IsEcho(c) == c.beh \in {"echo", "_echo"}
Calls == SelectSeq(prog.calls, LAMBDA c : ~c.notif)
Expected == IF Calls = <<>> THEN Nothing
            ELSE IF \E j \in DOMAIN Calls : ~IsEcho(Calls[j])
                 THEN LET f == CHOOSE j \in DOMAIN Calls : ~IsEcho(Calls[j]) /\ \A i \in 1..(j-1) : IsEcho(Calls[i])
                      IN [k |-> "raise", vals |-> <<>>, err |-> ErrOf(Calls[f])]
                 ELSE [k |-> IF prog.notation \in SingleNotations THEN "value" ELSE "tuple",
                       vals |-> [j \in DOMAIN Calls |-> ValueOf(Calls[j])], err |-> "na"]

InitWith(p) == prog = p /\ pc = "start" /\ wire = <<>> /\ execLog = <<>> /\ out = Nothing

\* the notation turns the calls into ONE request document
DocOf(p) == [k |-> IF p.notation \in SingleNotations \cup {"notify"} THEN "single" ELSE "batch",
             els |-> [j \in DOMAIN p.calls |-> [method |-> p.calls[j].beh, args |-> p.calls[j].args, hasid |-> ~p.calls[j].notif]]]
\* Known deviation "UuidIds": ids produced by generators.uuid are UUID objects the JSON encoder cannot serialise
UuidBroken == "UuidIds" \in Deviations /\ prog.idgen = "uuid" /\ Calls # <<>>
Build == /\ pc = "start" /\ pc' = "built" /\ UNCHANGED <<prog, wire, execLog, out>>
Send  == /\ pc = "built" /\ ~UuidBroken /\ wire' = <<DocOf(prog)>> /\ pc' = "sent" /\ UNCHANGED <<prog, execLog, out>>
Dev_EncodeFails == /\ pc = "built" /\ UuidBroken /\ out' = [k |-> "raise", vals |-> <<>>, err |-> "TypeError"] /\ pc' = "done"
                   /\ UNCHANGED <<prog, wire, execLog>>
\* the dispatcher runs every element's method exactly once, in request order (sequentially or gathered without suspension)
Serve == /\ pc = "sent"
         /\ execLog' = [j \in DOMAIN prog.calls |-> [beh |-> prog.calls[j].beh, args |-> Received(prog.calls[j])]]
         /\ pc' = "served" /\ UNCHANGED <<prog, wire, out>>
Deliver == /\ pc = "served" /\ out' = Expected /\ pc' = "done" /\ UNCHANGED <<prog, wire, execLog>>
Next == Build \/ Send \/ Dev_EncodeFails \/ Serve \/ Deliver
Spec == [][Next]_vars

(******************************* properties *********************************)
Done == pc = "done"
Broken == UuidBroken
OneWellFormedDocPerCall == (Done /\ ~Broken) =>
    /\ Len(wire) = 1
    /\ Len(wire[1].els) = Len(prog.calls)
    /\ \A j \in DOMAIN prog.calls : /\ wire[1].els[j].hasid = ~prog.calls[j].notif
                                    /\ wire[1].els[j].args = prog.calls[j].args /\ wire[1].els[j].method = prog.calls[j].beh
ValueIsDirectCall == (Done /\ ~Broken /\ out.k \in {"value", "tuple"}) =>
    /\ \A j \in DOMAIN Calls : IsEcho(Calls[j]) /\ out.vals[j] = ValueOf(Calls[j])
ErrorIsTypedAndVerbatim == (Done /\ ~Broken /\ out.k = "raise") => \E j \in DOMAIN Calls : out.err = ErrOf(Calls[j]) /\ ~IsEcho(Calls[j])
NotificationsReturnNothingRunOnce == (Done /\ ~Broken) =>
    /\ (Calls = <<>> => out = Nothing)
    /\ Len(execLog) = Len(prog.calls)
    /\ \A j \in DOMAIN prog.calls : execLog[j] = [beh |-> prog.calls[j].beh, args |-> Received(prog.calls[j])]
NotationsInterchangeable == (Done /\ ~Broken) => out = Expected
=============================================================================
