----------------------------- MODULE HttpClientMC -----------------------------
EXTENDS HttpClient, Json
NoNext == FALSE /\ UNCHANGED vars
EmitScn == pc = "start" => PrintT(<<"SCN", ToJson([scn |-> scn])>>)
Backends == {"requests", "httpx_sync", "httpx_async", "aiohttp"}
CTypes == {[base |-> b, variant |-> v] : b \in {"application/json", "application/json-rpc"}, v \in {"plain", "charset"}}
          \cup {[base |-> b, variant |-> "plain"] : b \in {"text/html", "text/plain", "application/jsonrequest", "missing"}}
InitDrop == \E b \in Backends, r \in {"call", "notification", "batch"}, ra \in BOOLEAN :
               InitWith([backend |-> b, req |-> r, raise |-> ra, status |-> 200, ctype |-> [base |-> "application/json", variant |-> "plain"], body |-> "drop"])
Init == InitDrop \/ \E b \in Backends, r \in {"call", "notification", "batch"}, ra \in BOOLEAN, st \in {200, 201, 404, 500},
           ct \in CTypes, bd \in {"result", "error", "wrong_id", "empty", "html"} :
           InitWith([backend |-> b, req |-> r, raise |-> ra, status |-> st, ctype |-> ct, body |-> bd])
=============================================================================
