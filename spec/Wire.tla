-------------------------------- MODULE Wire --------------------------------
(***************************************************************************)
(* JSON-RPC 2.0 wire model of pjrpc (pjrpc/common/v20.py, exceptions.py,   *)
(* common.py): documents are records of member tags (JsonValues), messages *)
(* are what the library's objects hold.  Parse* / Ser* are the oracle      *)
(* tables of DESIGN.md Appendix A.  The state machine at the end is the    *)
(* serialise -> encode -> decode -> deserialise -> serialise pipeline       *)
(* (C05) and the deserialise-only pipeline (C06).                          *)
(***************************************************************************)
EXTENDS JsonValues, TLC

NA == "na"

(*************************** error objects *********************************)
CodeTags == {"c_m32700", "c_m32600", "c_m32601", "c_m32602", "c_m32603", "c_m32000",
             "c_m32050", "c_2001", "c_2002"}
IntLike  == IntTags \cup CodeTags            \* every tag whose representative is a JSON integer

StdClass == [c_m32700 |-> "ParseError", c_m32600 |-> "InvalidRequestError",
             c_m32601 |-> "MethodNotFoundError", c_m32602 |-> "InvalidParamsError",
             c_m32603 |-> "InternalError", c_m32000 |-> "ServerError",
             c_2001 |-> "VerifCustomError", i0 |-> "VerifZeroError",       \* user classes registered for 2001 and for code 0
             i1 |-> "VerifScopedChild",
             c_2002 |-> "VerifLatestError"]     \* ... and for 2002: a first class registered only AFTER an error with that code had been deserialised,
                                                \* then (the code deserialised again) a second class for the same code - the latest registration wins                                    \* ... and (a subclass of a scoping base) for code 1
\* A base class may bring its own resolution (the documented recipe: override get_error_cls to look among the base's own
\* subclasses only).  "VerifScopedBase" does; its subclass "VerifScopedChild" claims code 1 (inside that scope and, like
\* every class that names a code, in the global registry).
ClassOf(code, base) == IF base = "VerifScopedBase" THEN (IF code = "i1" THEN "VerifScopedChild" ELSE "VerifScopedBase")
                       ELSE IF code \in DOMAIN StdClass THEN StdClass[code] ELSE base

AbsentErr == [shape |-> Absent, code |-> NA, message |-> NA, data |-> NA]
ScalarErr(t) == [shape |-> t, code |-> NA, message |-> NA, data |-> NA]
NoErr == [cls |-> NA, code |-> NA, message |-> NA, data |-> NA]

Deser    == [v |-> "Deser", m |-> NA]
Identity == [v |-> "Identity", m |-> NA]
Ok(m)    == [v |-> "Ok", m |-> m]
NoOut    == [v |-> "none", m |-> NA]

\* e : [shape, code, message, data]
ParseError(e, base) ==
    IF e.shape # "obj" THEN Deser
    ELSE IF e.code \notin IntLike THEN Deser              \* absent, bool, float, string, null ...
    ELSE IF e.message \notin StrTags THEN Deser
    ELSE Ok([cls |-> ClassOf(e.code, base), code |-> e.code, message |-> e.message,
             data |-> e.data])                             \* data: Absent stays Absent, null stays null

SerError(m) == [shape |-> "obj", code |-> m.code, message |-> m.message, data |-> m.data]

(***************************** requests ************************************)
\* d : [shape, jsonrpc, id, method, params]
ParseRequest(d) ==
    IF d.shape # "obj" THEN Deser
    ELSE IF d.jsonrpc # "s_v20" THEN Deser
    ELSE IF d.id \notin ({Absent, "null"} \cup IntLike \cup StrTags) THEN Deser
    ELSE IF d.method \notin StrTags THEN Deser
    ELSE IF d.params \notin ({Absent} \cup ArrTags \cup ObjTags) THEN Deser
    ELSE Ok([method |-> d.method,
             params |-> IF d.params \in {Absent, "a_empty", "o_empty"} THEN "none" ELSE d.params,
             id     |-> IF d.id \in {Absent, "null"} THEN "notif" ELSE d.id])

SerRequest(m) == [shape |-> "obj", jsonrpc |-> "s_v20",
                  id |-> IF m.id = "notif" THEN Absent ELSE m.id,
                  method |-> m.method,
                  params |-> IF m.params = "none" THEN Absent ELSE m.params]

(***************************** responses ***********************************)
\* d : [shape, jsonrpc, id, result, error : error-doc]
ParseResponse(d, base) ==
    IF d.shape # "obj" THEN Deser
    ELSE IF d.jsonrpc # "s_v20" THEN Deser
    ELSE IF d.id \notin ({Absent, "null"} \cup IntLike \cup StrTags) THEN Deser
    ELSE IF d.error.shape # Absent /\ ParseError(d.error, base).v # "Ok" THEN Deser
    ELSE IF d.error.shape # Absent /\ d.result # Absent THEN Deser      \* both (null result counts)
    ELSE IF d.error.shape = Absent /\ d.result = Absent THEN Deser      \* neither
    ELSE Ok([id |-> IF d.id = Absent THEN "null" ELSE d.id,
             k  |-> IF d.error.shape = Absent THEN "result" ELSE "error",
             v  |-> IF d.error.shape = Absent THEN d.result ELSE NA,
             err |-> IF d.error.shape = Absent THEN NoErr ELSE ParseError(d.error, base).m])

SerResponse(m) == [shape |-> "obj", jsonrpc |-> "s_v20", id |-> m.id,
                   result |-> IF m.k = "result" THEN m.v ELSE Absent,
                   error  |-> IF m.k = "error" THEN SerError(m.err) ELSE AbsentErr]

(****************************** batches ************************************)
SeqToSet(s) == {s[i] : i \in DOMAIN s}
HasDup(ids, none) == \E i, j \in DOMAIN ids : i < j /\ ids[i] # none /\ ids[i] = ids[j]

\* d : [shape |-> "arr" or a tag, els |-> Seq(request-doc)]
ParseBatchRequest(d) ==
    IF d.shape # "arr" THEN Deser
    ELSE IF Len(d.els) = 0 THEN Deser
    ELSE IF \E i \in DOMAIN d.els : ParseRequest(d.els[i]).v # "Ok" THEN Deser
    ELSE LET ms == [i \in DOMAIN d.els |-> ParseRequest(d.els[i]).m] IN
         IF HasDup([i \in DOMAIN ms |-> ms[i].id], "notif") THEN Identity
         ELSE Ok(ms)

SerBatchRequest(ms) == [shape |-> "arr", els |-> [i \in DOMAIN ms |-> SerRequest(ms[i])]]

\* d : [shape |-> "arr" / "obj" / tag, els |-> Seq(response-doc), obj |-> response-doc]
\* message: [k |-> "error", err] (batch-level error) or [k |-> "list", els]
ParseBatchResponse(d, base) ==
    IF d.shape = "obj" THEN
        IF d.obj.jsonrpc # "s_v20" THEN Deser
        ELSE IF d.obj.id \in {Absent, "null"} /\ d.obj.error.shape # Absent THEN
            IF ParseError(d.obj.error, base).v = "Ok"
            THEN Ok([k |-> "error", err |-> ParseError(d.obj.error, base).m, els |-> <<>>])
            ELSE Deser
        ELSE Deser
    ELSE IF d.shape # "arr" THEN Deser
    ELSE IF \E i \in DOMAIN d.els : ParseResponse(d.els[i], base).v # "Ok" THEN Deser
    ELSE LET ms == [i \in DOMAIN d.els |-> ParseResponse(d.els[i], base).m] IN
         IF HasDup([i \in DOMAIN ms |-> ms[i].id], "null") THEN Identity
         ELSE Ok([k |-> "list", err |-> NoErr, els |-> ms])

NoRespDoc == [shape |-> NA, jsonrpc |-> NA, id |-> NA, result |-> NA, error |-> AbsentErr]
SerBatchResponse(m) ==
    IF m.k = "error"
    THEN [shape |-> "obj", els |-> <<>>,
          obj |-> SerResponse([id |-> "null", k |-> "error", v |-> NA, err |-> m.err])]
    ELSE [shape |-> "arr", els |-> [i \in DOMAIN m.els |-> SerResponse(m.els[i])], obj |-> NoRespDoc]

(*********** the statement of C06 in property vocabulary *******************)
\* "structurally valid" as the property lists it, independent of the parse tables above
ValidId(t)      == t \in {Absent, "null"} \/ TypeOf(t) = "string" \/ (TypeOf(t) = "integer" \/ t \in CodeTags)
ValidErrorObj(e) == e.shape = "obj" /\ (TypeOf(e.code) = "integer" \/ e.code \in CodeTags)
                    /\ TypeOf(e.message) = "string"
ValidRequestDoc(d) == /\ d.shape = "obj" /\ d.jsonrpc = "s_v20" /\ ValidId(d.id)
                      /\ TypeOf(d.method) = "string"
                      /\ (d.params = Absent \/ TypeOf(d.params) \in {"array", "object"})
ValidResponseDoc(d) == /\ d.shape = "obj" /\ d.jsonrpc = "s_v20" /\ ValidId(d.id)
                       /\ ((d.result # Absent) # (d.error.shape # Absent))      \* exactly one
                       /\ (d.error.shape # Absent => ValidErrorObj(d.error))

(***************************************************************************)
(* The pipeline.  kind:                                                    *)
(*   "p_req" "p_resp" "p_err" "p_breq" "p_bresp"  deserialise `wire`       *)
(*   "rt_req" "rt_resp" "rt_err" "rt_breq" "rt_bresp"  round trip of `msg` *)
(***************************************************************************)
CONSTANTS ReqDocs, ErrDocs, RespDocs, BatchReqDocs, BatchRespDocs, Bases,
          ReqMsgs, ErrMsgs, RespMsgs, BatchReqMsgs, BatchRespMsgs

VARIABLES kind, base, msg, wire, pc, out, wire2
vars == <<kind, base, msg, wire, pc, out, wire2>>

ParseKinds == {"p_req", "p_resp", "p_err", "p_breq", "p_bresp"}
RtKinds    == {"rt_req", "rt_resp", "rt_err", "rt_breq", "rt_bresp"}

ParseOf(k, w, b) == CASE k \in {"p_req", "rt_req"}     -> ParseRequest(w)
                      [] k \in {"p_resp", "rt_resp"}   -> ParseResponse(w, b)
                      [] k \in {"p_err", "rt_err"}     -> ParseError(w, b)
                      [] k \in {"p_breq", "rt_breq"}   -> ParseBatchRequest(w)
                      [] k \in {"p_bresp", "rt_bresp"} -> ParseBatchResponse(w, b)
SerOf(k, m) == CASE k \in {"p_req", "rt_req"}     -> SerRequest(m)
                 [] k \in {"p_resp", "rt_resp"}   -> SerResponse(m)
                 [] k \in {"p_err", "rt_err"}     -> SerError(m)
                 [] k \in {"p_breq", "rt_breq"}   -> SerBatchRequest(m)
                 [] k \in {"p_bresp", "rt_bresp"} -> SerBatchResponse(m)

InitParse(k, w, b) == kind = k /\ base = b /\ msg = NA /\ wire = w /\ pc = "serialized"
                      /\ out = NoOut /\ wire2 = NA
InitRt(k, m, b)    == kind = k /\ base = b /\ msg = m /\ wire = NA /\ pc = "built"
                      /\ out = NoOut /\ wire2 = NA

Init == \/ \E w \in ReqDocs       : InitParse("p_req", w, "JsonRpcError")
        \/ \E w \in ErrDocs, b \in Bases \cup {"VerifScopedBase"} : InitParse("p_err", w, b)
        \/ \E w \in RespDocs, b \in Bases  : InitParse("p_resp", w, b)
        \/ \E w \in BatchReqDocs  : InitParse("p_breq", w, "JsonRpcError")
        \/ \E w \in BatchRespDocs, b \in Bases : InitParse("p_bresp", w, b)
        \/ \E m \in ReqMsgs       : InitRt("rt_req", m, "JsonRpcError")
        \/ \E m \in ErrMsgs       : InitRt("rt_err", m, m.cls)
        \/ \E m \in RespMsgs, b \in Bases : InitRt("rt_resp", m, b)
        \/ \E m \in BatchReqMsgs  : InitRt("rt_breq", m, "JsonRpcError")
        \/ \E m \in BatchRespMsgs, b \in Bases : InitRt("rt_bresp", m, b)

\* to_json (also what json.dumps(obj, cls=JSONEncoder) must produce)
Ser == /\ pc = "built"
       /\ wire' = SerOf(kind, msg)
       /\ pc' = "serialized"
       /\ UNCHANGED <<kind, base, msg, out, wire2>>

\* from_json
Parse == /\ pc = "serialized"
         /\ out' = ParseOf(kind, wire, base)
         /\ pc' = IF out'.v = "Ok" THEN "parsed" ELSE "rejected"
         /\ UNCHANGED <<kind, base, msg, wire, wire2>>

\* to_json of the deserialised object
Reser == /\ pc = "parsed"
         /\ wire2' = SerOf(kind, out.m)
         /\ pc' = "done"
         /\ UNCHANGED <<kind, base, msg, wire, out>>

Next == Ser \/ Parse \/ Reser
Spec == Init /\ [][Next]_vars

(****************************** properties *********************************)
\* base class bookkeeping: an error message round-trips to the class registered for its code
NormErr(e, b)  == IF e.cls = NA THEN e ELSE [e EXCEPT !.cls = ClassOf(e.code, b)]
NormResp(m, b) == [m EXCEPT !.err = NormErr(m.err, b)]
Normal(k, m, b) == CASE k = "rt_err"   -> NormErr(m, b)
                     [] k = "rt_resp"  -> NormResp(m, b)
                     [] k = "rt_bresp" -> [m EXCEPT !.err = NormErr(m.err, b),
                                                    !.els = [i \in DOMAIN m.els |-> NormResp(m.els[i], b)]]
                     [] OTHER -> m

\* C05
RoundTrip == (kind \in RtKinds /\ pc \in {"parsed", "rejected", "done"})
                 => (out.v = "Ok" /\ out.m = Normal(kind, msg, base))
FixPoint  == (kind \in RtKinds /\ pc = "done") => wire2 = wire
ReparseStable == pc = "done" => ParseOf(kind, wire2, base) = out
WireReqExact(w, m) == /\ w.jsonrpc = "s_v20"
                      /\ (w.id # Absent) = (m.id # "notif")
                      /\ (w.params # Absent) = (m.params # "none")
WireRespExact(w, m) == /\ w.jsonrpc = "s_v20"
                       /\ (w.result # Absent) # (w.error.shape # Absent)
                       /\ (m.k = "result" => w.result = m.v)               \* null result is a result
                       /\ (m.k = "error" => (w.error.data = Absent) = (m.err.data = Absent))
WireExact == (kind \in RtKinds /\ pc # "built") =>
                CASE kind = "rt_req"  -> WireReqExact(wire, msg)
                  [] kind = "rt_resp" -> WireRespExact(wire, msg)
                  [] kind = "rt_err"  -> (wire.data = Absent) = (msg.data = Absent)
                  [] kind = "rt_breq" -> /\ Len(wire.els) = Len(msg)
                                         /\ \A i \in DOMAIN msg : WireReqExact(wire.els[i], msg[i])
                  [] kind = "rt_bresp" -> IF msg.k = "error" THEN wire.shape = "obj" /\ wire.obj.id = "null"
                                          ELSE /\ Len(wire.els) = Len(msg.els)
                                               /\ \A i \in DOMAIN msg.els : WireRespExact(wire.els[i], msg.els[i])
ClassOfCode == (kind \in {"rt_err", "p_err"} /\ pc \in {"parsed", "done"})
                  => out.m.cls = ClassOf(out.m.code, base)

\* C06 : the parse tables accept exactly the structurally valid documents
StrictRequest  == (kind = "p_req" /\ pc \in {"parsed", "rejected", "done"})
                     => ((out.v = "Ok") = ValidRequestDoc(wire))
StrictResponse == (kind = "p_resp" /\ pc \in {"parsed", "rejected", "done"})
                     => ((out.v = "Ok") = ValidResponseDoc(wire))
StrictError    == (kind = "p_err" /\ pc \in {"parsed", "rejected", "done"})
                     => ((out.v = "Ok") = ValidErrorObj(wire))
StrictBatchRequest == (kind = "p_breq" /\ pc \in {"parsed", "rejected", "done"}) =>
        /\ (out.v = "Ok") => (/\ wire.shape = "arr" /\ Len(wire.els) > 0
                              /\ \A i \in DOMAIN wire.els : ValidRequestDoc(wire.els[i]))
        /\ (out.v = "Identity") => (\A i \in DOMAIN wire.els : ValidRequestDoc(wire.els[i]))
Total == out.v \in {"none", "Ok", "Deser", "Identity"}
OnlyBatchesRaiseIdentity == (out.v = "Identity") => kind \in {"p_breq", "p_bresp", "rt_breq", "rt_bresp"}
=============================================================================
