INIT InitThorough
NEXT Next
CONSTANTS
  MaxStray = 1
INVARIANT EmitScn
CHECK_DEADLOCK FALSE
