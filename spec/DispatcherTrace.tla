--------------------------- MODULE DispatcherTrace ---------------------------
(* Trace validation of recorded Dispatcher / AsyncDispatcher executions against Dispatcher. *)
EXTENDS Dispatcher, TraceBase

TraceInit == tid \in 1..NTraces /\ l = 1 /\ InitWith(Traces[tid].scn.cfg, Traces[tid].scn.text)

Last(s) == s[Len(s)]

\* instrumented middleware k was called with the (possibly rewritten) request of some element
TMwEnter == /\ IsEvent("MwEnter")
            /\ \E i \in DOMAIN elems :
                  /\ MwEnter(i)
                  /\ E.k = elems[i].depth + 1 /\ E.rid = elems[i].req.id
                  /\ E.method = elems[i].req.method /\ E.params = elems[i].req.params
\* ... and returned: E.r says whether it returned a response or nothing
TMwExit  == /\ IsEvent("MwExit")
            /\ \E i \in DOMAIN elems :
                  /\ MwExit(i)
                  /\ E.k = elems[i].depth /\ E.rid = elems[i].req.id
                  /\ E.r = elems'[i].resp.k
\* a registered method's body ran with these arguments
TExec    == /\ IsEvent("Exec")
            /\ \E i \in DOMAIN elems : Exec(i) /\ E.method = Last(execLog').method /\ E.args = Last(execLog').args
\* an instrumented error handler ran
TEh      == /\ IsEvent("Eh")
            /\ \E i \in DOMAIN elems :
                  /\ ErrHandler(i)
                  /\ LET x == Last(ehLog') IN
                        x.key = E.key /\ x.idx = E.idx /\ x.cin = E.cin /\ x.cout = E.cout /\ E.rid = elems[i].req.id

\* library-generated errors: code fixed, message any string, data anything
MatchErr(s, o) == /\ s.code = o.code
                  /\ IF s.message = "m_lib" THEN o.message \in StrTags \cup {"m_opaque"} ELSE s.message = o.message
                  /\ (s.data = "d_lib" \/ s.data = o.data)
MatchResp(s, o) == /\ o.k = "resp" /\ s.id = o.id /\ s.body = o.body
                   /\ IF s.body = "result" THEN s.v = o.v ELSE MatchErr(s.err, o.err)
MatchOut(s, o) == IF s = Nothing THEN o.k = "nothing"
                  ELSE /\ o.k = s.k /\ Len(o.doc) = Len(s.doc)
                       /\ \A j \in DOMAIN s.doc : MatchResp(s.doc[j], o.doc[j])
                       /\ o.codes = s.codes
\* dispatch returned: nothing, or (text, codes); leak: an exception marker / type name occurs in the text
TReturn  == IsEvent("Return") /\ Return /\ MatchOut(out', E.out) /\ E.leak = FALSE

TSilent  == /\ \/ Load \/ Classify \/ SizeCheck
               \/ \E i \in DOMAIN elems : Resolve(i) \/ Finish(i) \/ ElemDone(i)
            /\ Silent

TraceNext == TMwEnter \/ TMwExit \/ TExec \/ TEh \/ TReturn \/ TSilent
TraceConstraint ==
    /\ TypeOK /\ WellFormed /\ CodesAgree /\ BatchIsMap /\ AnswerPerCall /\ NothingForNotifications
    /\ RejectedExecutesNothing /\ ExactlyOnce /\ NoSpuriousExec /\ RejectionCodes /\ CodeMapping
    /\ MwOncePerElement /\ EhOrder /\ EhOnlyOnFailure /\ KindIrrelevant
    /\ Progress
=============================================================================
