---- MODULE Retry_c19_quick ----
EXTENDS RetryMC
MyInit == InitC19(2)
====
