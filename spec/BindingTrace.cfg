INIT TraceInit
NEXT TraceNext
CONSTRAINT TraceConstraint
POSTCONDITION Post
CHECK_DEADLOCK FALSE
CONSTANTS
  Deviations <- EmptySet
  KindSet <- EmptySet
  InputKinds <- EmptySet
  MaxP = 0
  MaxPos = 0
