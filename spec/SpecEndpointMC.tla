---------------------------- MODULE SpecEndpointMC ----------------------------
EXTENDS SpecEndpoint, Json
NoNext == FALSE /\ UNCHANGED vars
Bound == Len(gets) <= 2
EmitScn == gets = <<>> => PrintT(<<"SCN", ToJson([scn |-> scn])>>)
Init == \E i \in {"aiohttp", "flask"}, k \in {"openapi31", "openapi30", "openrpc"}, e \in {"main", "main+api", "main+late"}, b \in {"/rpc", "/v1/rpc"} :
           \/ InitWith([integ |-> i, kind |-> k, endpoints |-> e, base |-> b, ui |-> "none"])
           \/ \E u \in {"swagger", "rapidoc", "redoc"} : k # "openrpc" /\ e = "main" /\ InitWith([integ |-> i, kind |-> k, endpoints |-> e, base |-> b, ui |-> u])
=============================================================================
