INIT Init
CHECK_DEADLOCK FALSE
NEXT NoNext
INVARIANT EmitScn
