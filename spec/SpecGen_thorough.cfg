INIT InitThorough
NEXT Next
CONSTANTS
  Deviations = {}
CONSTRAINT Bound
INVARIANT Idempotent
INVARIANT Isolated
INVARIANT ExactlyOnce
PROPERTY Pure
CHECK_DEADLOCK FALSE
