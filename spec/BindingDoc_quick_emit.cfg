INIT Init
CONSTANTS
  MaxP = 3
  Deviations = {}
  KindSet <- DocKinds
  InputKinds <- NamedOnly
  MaxPos = 0
CHECK_DEADLOCK FALSE
NEXT NoNext
INVARIANT EmitDoc
