INIT InitState
NEXT Next
CONSTANTS
  Regs <- R4
  PrefixOf <- Pfx
  MaxOps = 3
  Ops <- OpsAll
CONSTRAINT Bound
CHECK_DEADLOCK FALSE
INVARIANT EmitScn
