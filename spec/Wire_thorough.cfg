SPECIFICATION Spec
CONSTANTS
  ReqDocs <- ReqDocsFull
  ErrDocs <- ErrDocsFull
  RespDocs <- RespDocsFull
  BatchReqDocs <- BatchReqDocsFull
  BatchRespDocs <- BatchRespDocsFull
  Bases <- BasesAll
  ReqMsgs <- ReqMsgsFull
  ErrMsgs <- ErrMsgsFull
  RespMsgs <- RespMsgsFull
  BatchReqMsgs <- BatchReqMsgsFull
  BatchRespMsgs <- BatchRespMsgsFull
INVARIANT RoundTrip
INVARIANT FixPoint
INVARIANT ReparseStable
INVARIANT WireExact
INVARIANT ClassOfCode
INVARIANT StrictRequest
INVARIANT StrictResponse
INVARIANT StrictError
INVARIANT StrictBatchRequest
INVARIANT Total
INVARIANT OnlyBatchesRaiseIdentity
CHECK_DEADLOCK FALSE
