SPECIFICATION LiveSpec
CONSTANTS
  MaxStray = 0
PROPERTY Termination
CHECK_DEADLOCK FALSE
