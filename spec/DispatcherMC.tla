---------------------------- MODULE DispatcherMC ----------------------------
(* Model-checking / scenario-emission instance of Dispatcher: the finite scenario sets. *)
EXTENDS Dispatcher, Json
EmptyC == {}
NoNext == FALSE /\ UNCHANGED vars
EmitScn == pc = "recv" => PrintT(<<"SCN", ToJson([cfg |-> cfg, text |-> text])>>)

EhKeys == {"c_m32601", "c_m32602", "c_m32000", "c_2001", "i1"}
NoEh == [gen |-> <<>>, by |-> [c \in EhKeys |-> <<>>]]
DefPerr == [code |-> "i1", message |-> "s_a", data |-> Absent]
Cfg(kd, mb, mws, eh, perr, exc, fl) ==
    [kind |-> kd, maxBatch |-> mb, mws |-> mws, eh |-> eh, perr |-> perr, exc |-> exc, flavour |-> fl]
KindFl == {<<"sync", "plain">>, <<"async", "coro">>, <<"async", "plain">>}
PCfg(kf, mb) == Cfg(kf[1], mb, <<>>, NoEh, DefPerr, "ValueError", kf[2])

RD(j, i, m, p) == [shape |-> "obj", jsonrpc |-> j, id |-> i, method |-> m, params |-> p]
NaReq(t) == [shape |-> t, jsonrpc |-> NA, id |-> NA, method |-> NA, params |-> NA]
Single(d) == [k |-> "single", cls |-> NA, doc |-> d, els |-> <<>>]
Batch(s)  == [k |-> "batch", cls |-> NA, doc |-> NaReq(NA), els |-> s]
NotJson(c) == [k |-> "notjson", cls |-> c, doc |-> NaReq(NA), els |-> <<>>]
Huge(c)    == [k |-> "hugeint", cls |-> c, doc |-> NaReq(NA), els |-> <<>>]
SeqsOf(S, n) == [1..n -> S]
SeqsUpTo(S, n) == UNION {[1..k -> S] : k \in 0..n}

(************************************ C01 **********************************)
JsonrpcFull == {Absent, "s_v20", "s_v10", "f2_0", "null", "a_empty"}
IdFull      == {Absent, "null", "true", "false", "i0", "i1", "im1", "ibig", "f1_0", "f1_5",
                "s_empty", "s_a", "s_1", "a_1", "o_a"}
MethodFull  == {Absent, "null", "s_empty", "m_ok", "m_one", "m_perr", "m_exc", "m_unk", "i1", "true", "a_1", "o_a"}
ParamsFull  == {Absent, "null", "a_empty", "a_1", "o_empty", "o_a", "a_deep", "a_deep64", "o_deep", "i0", "s_a", "true", "f1_5"}
NonObjShapes == {"null", "true", "i0", "i1", "f1_5", "s_empty", "s_a", "ibig"}
NotJsonClasses == {"empty", "garbage", "truncated", "trailing_comma", "single_quotes", "bom", "two_values", "unquoted_key"}
HugeClasses == {"in_params", "as_id", "bare", "in_batch"}
ElemsSmall == {RD("s_v20", "i1", "m_ok", "a_1"), RD("s_v20", "s_1", "m_ok", Absent), RD("s_v20", Absent, "m_ok", "o_a"),
               RD("s_v20", "i0", "m_perr", Absent), RD("s_v20", "i2", "m_exc", Absent), RD("s_v20", "null", "m_exc", Absent),
               RD("s_v20", "i3", "m_unk", Absent), RD("s_v20", "s_empty", "m_one", Absent),
               RD("s_v10", "i3", "m_ok", Absent), RD("s_v20", "true", "m_ok", Absent), NaReq("i1"), NaReq("a_empty"),
               RD("s_v20", "a_1", "m_ok", Absent),            \* an id that is an array (not hashable in Python)
               RD("s_v20", Absent, "m_int", Absent)}          \* a notification that fails with an internal error while being bound
C01Limits == {"unset", "n0", "n1", "n2"}
InitC01(n) ==
    \/ \E kf \in KindFl, j \in JsonrpcFull, i \in IdFull, m \in MethodFull, p \in ParamsFull :
          InitWith(PCfg(kf, "unset"), Single(RD(j, i, m, p)))
    \/ \E kf \in KindFl, t \in NonObjShapes : InitWith(PCfg(kf, "unset"), Single(NaReq(t)))
    \/ \E kf \in KindFl, mb \in C01Limits :
          \/ \E s \in SeqsUpTo(ElemsSmall, n) : InitWith(PCfg(kf, mb), Batch(s))
          \/ \E x \in NotJsonClasses : InitWith(PCfg(kf, mb), NotJson(x))
          \/ \E x \in HugeClasses : InitWith(PCfg(kf, mb), Huge(x))
    \* (non-raising) middlewares that answer themselves or answer nothing: still a well-formed document or nothing, never "[]"
    \/ \E kf \in KindFl, st \in {<<"drop">>, <<"short">>, <<"shortall">>, <<"pass", "drop">>}, s \in SeqsUpTo(ElemsSmall, 2) :
          InitWith(Cfg(kf[1], "unset", st, NoEh, DefPerr, "ValueError", kf[2]), Batch(s))

(************************************ C02 **********************************)
ElemKinds == {<<"s_v20", "m_ok", "a_1">>, <<"s_v20", "m_unk", Absent>>, <<"s_v20", "m_one", Absent>>,
              <<"s_v20", "m_perr", "o_a">>, <<"s_v20", "m_exc", Absent>>, <<"s_v10", "m_ok", Absent>>}
ElemIds == {Absent, "null", "i0", "im1", "i1", "s_1", "s_empty", "i2"}
ElemsFull == {RD(x[1], i, x[2], x[3]) : x \in ElemKinds, i \in ElemIds} \cup {RD("s_v20", Absent, "m_int", Absent), RD("s_v20", "o_a", "m_ok", Absent)}
ElemsMid  == {RD(x[1], i, x[2], x[3]) : x \in ElemKinds, i \in {Absent, "i0", "i1", "s_1"}}
InitC02Quick ==
    \/ \E kf \in KindFl, e \in ElemsFull : InitWith(PCfg(kf, "unset"), Single(e))
    \/ \E kf \in KindFl, mb \in {"unset", "n1", "n2", "n3"} :
          \/ \E e1 \in ElemsFull : InitWith(PCfg(kf, mb), Batch(<<e1>>))
          \/ \E e1 \in ElemsFull, e2 \in ElemsFull : InitWith(PCfg(kf, mb), Batch(<<e1, e2>>))
          \/ \E e1 \in ElemsSmall, e2 \in ElemsSmall, e3 \in ElemsSmall : InitWith(PCfg(kf, mb), Batch(<<e1, e2, e3>>))
    \* the asynchronous dispatcher serving coroutine functions hidden behind an ordinary (non-async) pass-through decorator:
    \* the registered callable is a plain function that RETURNS a coroutine
    \/ \E e \in ElemsFull : InitWith(PCfg(<<"async", "wrapcoro">>, "unset"), Single(e))
    \/ \E e1 \in ElemsMid, e2 \in ElemsMid : InitWith(PCfg(<<"async", "wrapcoro">>, "unset"), Batch(<<e1, e2>>))
    \* the asynchronous dispatcher with concurrent_batch switched off: a batch is still the map of its elements
    \/ \E e1 \in ElemsMid, e2 \in ElemsMid : InitWith(PCfg(<<"asyncseq", "coro">>, "unset"), Batch(<<e1, e2>>))
    \/ \E e1 \in ElemsSmall, e2 \in ElemsSmall, e3 \in ElemsSmall : InitWith(PCfg(<<"asyncseq", "coro">>, "n3"), Batch(<<e1, e2, e3>>))
InitC02Thorough ==
    \/ InitC02Quick
    \/ \E kf \in KindFl, mb \in {"unset", "n2", "n3", "n4"} :
          \/ \E e1 \in ElemsMid, e2 \in ElemsMid, e3 \in ElemsMid : InitWith(PCfg(kf, mb), Batch(<<e1, e2, e3>>))
          \/ \E e1 \in ElemsSmall, e2 \in ElemsSmall, e3 \in ElemsSmall, e4 \in ElemsSmall :
                InitWith(PCfg(kf, mb), Batch(<<e1, e2, e3, e4>>))

(************************************ C03 **********************************)
PerrCodes == {"i0", "i1", "im1", "c_m32601", "c_m32050", "c_2001", "ibig"}
PerrMsgs  == {"s_a", "s_empty", "s_esc"}
PerrData  == {Absent, "null", "i0", "false", "s_empty", "a_empty", "o_empty", "o_deep"}
ExcTypes == {"ValueError", "KeyError", "TypeError", "AssertionError", "RuntimeError", "Custom", "LookupError", "StopIteration",
             "PjrpcDeserializationError", "PjrpcIdentityError", "PjrpcBaseError", "ValidationError",
             "TimeoutError", "OSError", "ZeroDivisionError", "AsyncioTimeoutError", "UnicodeDecodeError", "JSONDecodeError"}   \* the library's own non-protocol exceptions
FailForms(m) == {Single(RD("s_v20", "i1", m, Absent)), Single(RD("s_v20", Absent, m, Absent)),
                 Single(RD("s_v20", "s_empty", m, "a_1")),
                 Batch(<<RD("s_v20", "i1", "m_ok", Absent), RD("s_v20", "i0", m, Absent)>>),
                 Batch(<<RD("s_v20", "i2", m, "o_a"), RD("s_v20", Absent, m, Absent), RD("s_v20", "s_1", "m_ok", Absent)>>)}
C03Texts == {Single(RD("s_v20", "i1", "m_unk", Absent)), Single(RD("s_v20", "i1", "m_one", Absent)),
             Single(RD("s_v20", "i1", "m_one", "a_deep")), Single(RD("s_v20", "i1", "m_ok", "o_deep")),
             Single(RD("s_v20", "i1", "m_ok", "null")), Single(NaReq("i1")), Batch(<<>>),
             Batch(<<RD("s_v20", "i1", "m_ok", Absent), RD("s_v20", "i1", "m_ok", Absent)>>),
             Batch(<<RD("s_v20", "i1", "m_ok", Absent), NaReq("s_a")>>),
             Batch(<<RD("s_v20", "i1", "m_ok", Absent), RD("s_v20", "i2", "m_ok", Absent)>>)}
            \cup {NotJson(x) : x \in NotJsonClasses} \cup {Huge(x) : x \in HugeClasses}
InitC03 ==
    \/ \E kf \in KindFl, c \in PerrCodes, m \in PerrMsgs, d \in PerrData, t \in FailForms("m_perr") :
          InitWith(Cfg(kf[1], "unset", <<>>, NoEh, [code |-> c, message |-> m, data |-> d], "ValueError", kf[2]), t)
    \/ \E kf \in KindFl, x \in ExcTypes, t \in FailForms("m_exc") :
          InitWith(Cfg(kf[1], "unset", <<>>, NoEh, DefPerr, x, kf[2]), t)
    \/ \E kf \in KindFl, mb \in {"unset", "n1"}, t \in C03Texts : InitWith(PCfg(kf, mb), t)

(************************************ C12 **********************************)
MwKinds == {"pass", "short", "shortall", "drop", "rewriteReq", "rewriteResp"}   \* shortall answers notifications too, drop answers nothing
Eh(g, by) == [gen |-> g, by |-> [c \in EhKeys |-> IF c \in DOMAIN by THEN by[c] ELSE <<>>]]
EhTables == {NoEh,
             Eh(<<"identity">>, <<>>), Eh(<<"replace">>, <<>>), Eh(<<"identity", "replace">>, <<>>),
             Eh(<<>>, [c_m32601 |-> <<"identity">>, i1 |-> <<"replace">>]),
             Eh(<<>>, [c_m32601 |-> <<"replace", "identity">>, c_m32000 |-> <<"identity", "identity">>, c_2001 |-> <<"identity">>]),
             Eh(<<"identity">>, [c_m32601 |-> <<"identity">>, c_m32602 |-> <<"replace">>, i1 |-> <<"identity">>]),
             Eh(<<"replace">>, [c_m32601 |-> <<"identity">>, c_2001 |-> <<"identity", "identity">>, i1 |-> <<"identity">>, c_m32000 |-> <<"replace">>]),
             Eh(<<"replace", "identity">>, [c_2001 |-> <<"replace">>, c_m32602 |-> <<"identity">>]),
             \* a generic handler that rewrites the error IN PLACE: the per-code handlers are still those of the RAISED code
             Eh(<<"mutate">>, [c_m32601 |-> <<"identity">>, c_2001 |-> <<"identity", "identity">>, i1 |-> <<"identity">>, c_m32000 |-> <<"mutate">>]),
             Eh(<<"identity", "mutate">>, [c_2001 |-> <<"replace">>, c_m32602 |-> <<"identity">>])}
EhTablesSmall == {NoEh, Eh(<<"replace">>, [c_m32601 |-> <<"identity">>, c_2001 |-> <<"identity">>])}
C12Texts == {Single(RD("s_v20", "i1", "m_ok", "o_a")), Single(RD("s_v20", "i1", "m_unk", Absent)),
             Single(RD("s_v20", "s_1", "m_one", Absent)), Single(RD("s_v20", "i0", "m_perr", Absent)),
             Single(RD("s_v20", "i2", "m_exc", Absent)), Single(RD("s_v20", Absent, "m_perr", Absent)),
             Single(RD("s_v20", Absent, "m_ok", Absent)),
             Batch(<<RD("s_v20", "i1", "m_ok", Absent), RD("s_v20", Absent, "m_exc", Absent), RD("s_v20", "i2", "m_unk", "a_1")>>),
             Batch(<<RD("s_v20", "i1", "m_perr", Absent), RD("s_v20", "i0", "m_one", Absent)>>),
             Batch(<<RD("s_v20", "i1", "m_ok", Absent)>>),                       \* a batch of one element
             Batch(<<RD("s_v20", Absent, "m_ok", Absent), RD("s_v20", Absent, "m_perr", Absent)>>),   \* nothing but notifications
             Single(RD("s_v10", "i1", "m_ok", Absent)), Batch(<<>>), NotJson("garbage")}
C12TextsSmall == {Single(RD("s_v20", "i1", "m_ok", "o_a")), Single(RD("s_v20", "i1", "m_unk", Absent)),
                  Batch(<<RD("s_v20", "i1", "m_ok", Absent), RD("s_v20", Absent, "m_exc", Absent)>>)}
KindFl2 == {<<"sync", "plain">>, <<"async", "coro">>, <<"asyncseq", "coro">>}      \* asyncseq: the asynchronous dispatcher with concurrent_batch switched off
InitC12(n) == \E kf \in KindFl2, st \in SeqsUpTo(MwKinds, n), eh \in EhTables, t \in C12Texts :
                 InitWith(Cfg(kf[1], "unset", st, eh, DefPerr, "ValueError", kf[2]), t)
InitC12Quick == \/ InitC12(2)
                \/ \E kf \in KindFl2, st \in SeqsOf(MwKinds, 3), eh \in EhTablesSmall, t \in C12TextsSmall :
                      InitWith(Cfg(kf[1], "unset", st, eh, DefPerr, "ValueError", kf[2]), t)
=============================================================================
