------------------------------ MODULE ClientMC ------------------------------
EXTENDS Client, Json
NoNext == FALSE /\ UNCHANGED vars
EmitScn == pc = "recv" => PrintT(<<"SCN", ToJson([mode |-> mode, strict |-> strict, calls |-> calls, doc |-> doc])>>)
El(i, b) == [id |-> i, body |-> b]
SeqsUpTo(S, n) == UNION {[1..k -> S] : k \in 0..n}
NoEls == <<>>
\* single call with id i1: every id relation x body
SingleDocs == {[k |-> "object", els |-> <<El(i, b)>>] : i \in {"i1", "i2", "null", "s1", "i0", "btrue", "f1_0"}, b \in {"result", "error", "both", "neither"}}
              \cup {[k |-> x, els |-> NoEls] : x \in {"notjson", "scalar"}} \cup {[k |-> "array", els |-> <<El("i1", "result")>>]}
\* batch of calls i1..in (+ notifications): every array over the element alphabet
ElemsQuick == {El("i1", "result"), El("i1", "error"), El("i2", "result"), El("i3", "result"), El("s1", "result"),
               El("i9", "result"), El("null", "result"), El("null", "error"), El("i2", "both"), El("btrue", "result")}
ElemsFull == [id : {"i1", "i2", "i3", "i4", "s1", "s2", "i9", "null"}, body : {"result", "error"}] \cup {El("i2", "both"), El("i3", "neither"), El("btrue", "result"), El("f1_0", "result")}
ObjDocs == {[k |-> "object", els |-> <<El(i, b)>>] : i \in {"null", "i1"}, b \in {"error", "result", "both"}}
           \cup {[k |-> x, els |-> NoEls] : x \in {"notjson", "scalar"}}
CallSeqs3 == {<<"i1", "i2", "i3">>, <<"i1", "notif", "i2">>, <<"i1">>, <<"notif", "i1", "i2">>}
CallSeqs4 == CallSeqs3 \cup {<<"i1", "i2", "i3", "i4">>, <<"i1", "i2", "notif", "i3", "i4">>}
InitC08(E, maxlen, CS) ==
    \/ \E st \in BOOLEAN, d \in SingleDocs : InitWith("single", st, <<"i1">>, d)
    \/ \E st \in BOOLEAN, cs \in CS :
          \/ \E d \in ObjDocs : InitWith("batch", st, cs, d)
          \/ \E n \in 0..maxlen : \E s \in [1..n -> E] : InitWith("batch", st, cs, [k |-> "array", els |-> s])
InitQuick == InitC08(ElemsQuick, 4, CallSeqs3)
InitThorough == InitC08(ElemsFull, 3, CallSeqs4) \/ InitC08(ElemsQuick, 4, CallSeqs4)
EmptyC == {}
=============================================================================
