------------------------------ MODULE ClientTrace ------------------------------
(* Trace validation of real client sends against adversarial response documents (Client). *)
EXTENDS Client, TraceBase
DevServerOrder == {"ServerOrderResults"}
TraceInit == tid \in 1..NTraces /\ l = 1
             /\ InitWith(Traces[tid].scn.mode, Traces[tid].scn.strict, Traces[tid].scn.calls, Traces[tid].scn.doc)
\* send() returned a response object (links: per response its id and the position of the request it is `related` to, 0 = none) or raised
TOutcome == /\ IsEvent("Outcome") /\ pc \in {"related", "failed"}
            /\ E.v = (IF pc = "failed" THEN fail ELSE "ok")
            /\ (pc = "related" /\ mode = "single" => E.links = <<[id |-> doc.els[1].id, pos |-> links[1]]>>)
            /\ (pc = "related" /\ mode = "batch" =>
                   {E.links[k] : k \in DOMAIN E.links} = {[id |-> doc.els[j].id, pos |-> links[j]] : j \in DOMAIN links})
            /\ UNCHANGED vars
\* ids of the responses in the order indexing / iteration / .result deliver them; vals_same: .result agrees with that order
TTuple   == IsEvent("Tuple") /\ Deliver(E.ids) /\ E.vals_same = TRUE
TSilent  == (Decode \/ Deserialise \/ Relate) /\ Silent
TraceNext == TOutcome \/ TTuple \/ TSilent
TraceConstraint == StrictRejects /\ MalformedIsDeser /\ RelatedLinked /\ PositionalByRequestOrder /\ Progress
=============================================================================
