SPECIFICATION InitOnly
INVARIANT EmitScn
CONSTANTS
  ReqDocs <- ReqDocsFull
  ErrDocs <- ErrDocsFull
  RespDocs <- RespDocsFull
  BatchReqDocs <- BatchReqDocsFull
  BatchRespDocs <- BatchRespDocsFull
  Bases <- BasesAll
  ReqMsgs <- ReqMsgsFull
  ErrMsgs <- ErrMsgsFull
  RespMsgs <- RespMsgsFull
  BatchReqMsgs <- BatchReqMsgsFull
  BatchRespMsgs <- BatchRespMsgsFull
CHECK_DEADLOCK FALSE
