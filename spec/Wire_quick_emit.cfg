SPECIFICATION InitOnly
INVARIANT EmitScn
CONSTANTS
  ReqDocs <- ReqDocsQuick
  ErrDocs <- ErrDocsQuick
  RespDocs <- RespDocsQuick
  BatchReqDocs <- BatchReqDocsQuick
  BatchRespDocs <- BatchRespDocsQuick
  Bases <- BasesAll
  ReqMsgs <- ReqMsgsFull
  ErrMsgs <- ErrMsgsFull
  RespMsgs <- RespMsgsFull
  BatchReqMsgs <- BatchReqMsgsQuick
  BatchRespMsgs <- BatchRespMsgsQuick
CHECK_DEADLOCK FALSE
