------------------------------ MODULE SpecGenMC ------------------------------
EXTENDS SpecGen, Json
Bound == Len(docs) <= 3
EmitScn == Len(docs) = 0 => PrintT(<<"SCN", ToJson([scn |-> scn])>>)
NoNext == FALSE /\ UNCHANGED vars
M(f, e, er, t, c) == [fn |-> f, ep |-> e, errs |-> er, tags |-> t, cpref |-> c, name |-> "own", meta |-> "none"]
N(m, n) == [m EXCEPT !.name = n]
F(m) == [m EXCEPT !.meta = "full"]         \* annotated with its own summary, description, deprecated, example, servers, docs, security
X(m) == [m EXCEPT !.meta = "schemas"]      \* annotated with explicit params / result schemas
Fns == {"f1", "f2", "f3", "f4"}
Kinds == {"openapi31", "openapi30", "openrpc"}
Extractors(k) == IF k = "openrpc" THEN {"pyd", "doc"} ELSE {"base", "pyd", "doc+pyd"}
MethodAlpha0 == {M(f, e, er, t, c) : f \in Fns, e \in {"root", "api"}, er \in {"unset", "own", "shared"}, t \in {"none", "t1"}, c \in {"none", "P_"}}
MethodAlphaPlain == {m \in MethodAlpha0 : m.tags = "none" /\ m.cpref = "none"}
MethodAlpha == MethodAlpha0 \cup {F(m) : m \in MethodAlphaPlain} \cup {X(m) : m \in MethodAlphaPlain}
MethodSmall == {M("f1", "root", "shared", "t1", "P_"), M("f2", "root", "shared", "none", "none"), M("f3", "root", "own", "t1", "none"),
                M("f4", "root", "unset", "none", "none"), M("f1", "api", "own", "none", "none"), M("f2", "api", "unset", "t1", "P_"),
                M("f3", "api", "shared", "none", "P_"), M("f1", "root", "unset", "none", "none"),
                \* different functions exposed under ONE name on different endpoints
                N(M("f1", "root", "unset", "none", "P_"), "dup"), N(M("f2", "api", "own", "none", "none"), "dup"), N(M("f3", "api", "unset", "t1", "none"), "dup"),
                \* annotated methods next to unannotated ones: nothing of one may show up in the other's entry
                F(M("f2", "root", "unset", "none", "none")), F(M("f3", "root", "own", "t1", "P_")), F(M("f4", "api", "shared", "none", "none")),
                F(N(M("f1", "api", "unset", "none", "none"), "dup")), X(M("f4", "root", "unset", "none", "none")), X(M("f1", "root", "own", "t1", "P_")),
                \* exposed names that differ only in "." versus "_" on one endpoint
                N(M("f1", "root", "unset", "none", "none"), "a.b"), N(M("f2", "root", "own", "none", "none"), "a_b")}
\* sets of three methods are drawn from a sub-alphabet (the full one gives 6859 x 16 x 2 scenarios)
MethodTriple == {M("f1", "root", "shared", "t1", "P_"), M("f2", "root", "shared", "none", "none"), M("f3", "root", "own", "t1", "none"),
                 M("f4", "root", "unset", "none", "none"), M("f1", "api", "own", "none", "none"), M("f3", "api", "shared", "none", "P_"),
                 N(M("f2", "api", "own", "none", "none"), "dup"), F(M("f2", "root", "unset", "none", "none")), X(M("f1", "root", "own", "t1", "P_"))}
Exposed(m) == IF m.name = "own" THEN m.fn ELSE m.name
DistinctNames(s) == \A i, j \in DOMAIN s : i # j => ~(Exposed(s[i]) = Exposed(s[j]) /\ s[i].ep = s[j].ep)
S(k, x, p, ms) == [kind |-> k, extractor |-> x, prefix |-> p, statusmap |-> "none", plan |-> "same", methods |-> ms]
SH(s) == [s EXCEPT !.plan = "shrink"]
GR(s) == [s EXCEPT !.plan = "grow"]
InitGrow == \E k \in Kinds : \E x \in Extractors(k), m1 \in {M("f1", "root", "own", "t1", "none"), M("f4", "root", "unset", "none", "none")} :
               InitWith(GR(S(k, x, "none", <<m1, M("f5", "root", "unset", "none", "none")>>)))
SM(s) == [s EXCEPT !.statusmap = "map"]
InitN(A, n) == \E k \in Kinds : \E x \in Extractors(k), p \in {"none", "rpc"} :
                 \/ \E m1 \in MethodAlpha : InitWith(S(k, x, p, <<m1>>))
                 \/ \E m1 \in A, m2 \in A : (n >= 3 \/ p = "none") /\ DistinctNames(<<m1, m2>>) /\ (InitWith(S(k, x, p, <<m1, m2>>)) \/ InitWith(SH(S(k, x, p, <<m1, m2>>))))
                 \/ n >= 3 /\ \E m1 \in MethodTriple, m2 \in MethodTriple, m3 \in MethodTriple : DistinctNames(<<m1, m2, m3>>)
                       /\ (InitWith(S(k, x, p, <<m1, m2, m3>>)) \/ InitWith(SH(S(k, x, p, <<m1, m2, m3>>))))
\* errors mapped to an HTTP status of their own (OpenAPI only); methods whose error sets for that status differ
MapExtra == {M("f4", "root", "own2", "none", "none"), M("f2", "root", "own2", "none", "P_"), M("f1", "api", "own2", "t1", "none")}
InitMap == \E k \in {"openapi31"}, x \in {"pyd"}, p \in {"none", "rpc"} :
              \/ \E m1 \in MethodSmall : InitWith(SM(S(k, x, p, <<m1>>)))
              \/ \E m1 \in MethodSmall \cup MapExtra, m2 \in {M("f3", "root", "own", "t1", "none"), M("f2", "api", "shared", "none", "P_")} \cup MapExtra :
                    DistinctNames(<<m1, m2>>) /\ InitWith(SM(S(k, x, p, <<m1, m2>>)))
SW(s) == [s EXCEPT !.plan = "swap"]
InitSwap == \E k \in Kinds : \E x \in Extractors(k) :
               \/ \E m1 \in {M("f1", "root", "own", "t1", "P_"), F(M("f2", "root", "unset", "none", "none")), X(M("f3", "root", "own", "none", "none"))} :
                     InitWith(SW(S(k, x, "none", <<m1>>)))
               \/ InitWith(SW(S(k, x, "none", <<M("f1", "root", "shared", "t1", "none"), F(M("f2", "api", "shared", "none", "P_"))>>)))
InitQuick == InitN(MethodSmall, 2) \/ InitMap \/ InitGrow \/ InitSwap
InitThorough == InitN(MethodSmall, 3) \/ InitMap \/ InitGrow \/ InitSwap
=============================================================================
