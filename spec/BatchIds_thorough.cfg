SPECIFICATION Spec
CONSTANTS
  IdAlpha <- IdsFull
  MaxOps = 4
  MaxIds = 4
  MaxExtend = 3
CONSTRAINT Bound
INVARIANT IdsConsistent
INVARIANT NoDuplicates
PROPERTY FailureAtomic
PROPERTY FailsIffDup
CHECK_DEADLOCK FALSE
