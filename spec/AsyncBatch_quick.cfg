SPECIFICATION Spec
CONSTANTS
  ElemTypes <- TypesQuick
  N = 3
INVARIANT TypeOK
INVARIANT OrderKept
INVARIANT ExactlyOnce
INVARIANT NeverTwice
INVARIANT Sequential
CHECK_DEADLOCK FALSE
