---------------------------- MODULE AsyncBatchMC ----------------------------
EXTENDS AsyncBatch, Json
ET(k, n, a, b, c, d) == [kind |-> k, notif |-> n, pre |-> a, meth |-> b, eh |-> c, post |-> d]
TypesQuick == {ET("ok", FALSE, 0, 0, 0, 0), ET("ok", FALSE, 0, 1, 0, 0), ET("ok", FALSE, 0, 2, 0, 0), ET("ok", FALSE, 1, 0, 0, 1),
               ET("fail", FALSE, 0, 0, 0, 0), ET("fail", FALSE, 0, 1, 1, 0), ET("fail", FALSE, 0, 0, 2, 0), ET("fail2", FALSE, 0, 0, 1, 0), ET("view", FALSE, 0, 1, 0, 0), ET("view0", FALSE, 0, 1, 0, 0),
               ET("plain", FALSE, 1, 0, 0, 0), ET("plain", FALSE, 0, 0, 0, 1),
               ET("ok", TRUE, 0, 1, 0, 0), ET("fail", TRUE, 0, 0, 1, 0)}
TypesSmall == {ET("ok", FALSE, 0, 0, 0, 0), ET("ok", FALSE, 0, 1, 0, 0), ET("ok", FALSE, 1, 0, 0, 1),
               ET("fail", FALSE, 0, 1, 1, 0), ET("view0", FALSE, 0, 1, 0, 0), ET("fail", TRUE, 0, 1, 0, 0)}
NoNext == FALSE /\ UNCHANGED vars
EmitScn == pc = "done" => PrintT(<<"SCN", ToJson([concurrent |-> concurrent, elems |-> elems, sched |-> sched])>>)
=============================================================================
