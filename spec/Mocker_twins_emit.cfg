SPECIFICATION Spec
CONSTANTS
  Endpoints <- E2
  Methods <- M2
  MaxOps = 6
  Ops <- OpsTwins
CONSTRAINT Bound
CHECK_DEADLOCK FALSE
INVARIANT EmitScn
