------------------------------ MODULE WireTrace ------------------------------
(* Trace validation of recorded pjrpc (de)serialisation executions against Wire. *)
EXTENDS Wire, TraceBase

TraceInit == /\ tid \in 1..NTraces /\ l = 1
             /\ IF Traces[tid].scn.kind \in ParseKinds
                THEN InitParse(Traces[tid].scn.kind, Traces[tid].scn.wire, Traces[tid].scn.base)
                ELSE InitRt(Traces[tid].scn.kind, Traces[tid].scn.msg, Traces[tid].scn.base)

\* to_json; enc_same: json.dumps(obj, cls=JSONEncoder) gave the same JSON value as to_json
TSer   == IsEvent("Ser") /\ Ser /\ wire' = E.wire /\ E.enc_same = TRUE
\* from_json: verdict, and the deserialised object's contents when there is one
\* "no parameters" has two spellings in the library (None when built without, [] when deserialised): the statement says "the
\* same parameters", not that == holds between the spellings - for such requests either answer of == is admitted
SpelledEither == \/ kind = "rt_req" /\ msg.params = "none"
                 \/ kind = "rt_breq" /\ \E j \in DOMAIN msg : msg[j].params = "none"
\* == of two batches orders their elements by id first and RAISES TypeError when the ids cannot be ordered (an integer and a
\* string, two notifications).  No listed property speaks about ==, so this is an observation (DESIGN 12d), not a violation:
\* for batches of two or more elements that answer is admitted as well
SortsIds == \/ kind = "rt_breq" /\ Len(msg) >= 2
            \/ kind = "rt_bresp" /\ Len(msg.els) >= 2
\* eq: the library's own == between the message that was built and the one that came back (round trips only: a lossless
\* round trip gives an EQUAL message, and != agrees); printable: str() and repr() of the deserialised message work
TParse == IsEvent("Parse") /\ Parse /\ out'.v = E.v /\ (E.v = "Ok" => out'.m = E.m)
          /\ E.printable = TRUE
          /\ IF kind \in RtKinds /\ E.v = "Ok"
             THEN E.eq = "yes" \/ (SpelledEither /\ E.eq = "no") \/ (SortsIds /\ E.eq = "raise:TypeError")
             ELSE E.eq = NA
\* to_json of the deserialised object
TReser == IsEvent("Reser") /\ Reser /\ wire2' = E.wire

TraceNext == TSer \/ TParse \/ TReser
TraceConstraint ==
    /\ RoundTrip /\ FixPoint /\ ReparseStable /\ WireExact /\ ClassOfCode
    /\ StrictRequest /\ StrictResponse /\ StrictError /\ StrictBatchRequest /\ Total
    /\ Progress
=============================================================================
