------------------------------ MODULE WireTrace ------------------------------
(* Trace validation of recorded pjrpc (de)serialisation executions against Wire. *)
EXTENDS Wire, TraceBase

TraceInit == /\ tid \in 1..NTraces /\ l = 1
             /\ IF Traces[tid].scn.kind \in ParseKinds
                THEN InitParse(Traces[tid].scn.kind, Traces[tid].scn.wire, Traces[tid].scn.base)
                ELSE InitRt(Traces[tid].scn.kind, Traces[tid].scn.msg, Traces[tid].scn.base)

\* to_json; enc_same: json.dumps(obj, cls=JSONEncoder) gave the same JSON value as to_json
TSer   == IsEvent("Ser") /\ Ser /\ wire' = E.wire /\ E.enc_same = TRUE
\* from_json: verdict, and the deserialised object's contents when there is one
TParse == IsEvent("Parse") /\ Parse /\ out'.v = E.v /\ (E.v = "Ok" => out'.m = E.m)
\* to_json of the deserialised object
TReser == IsEvent("Reser") /\ Reser /\ wire2' = E.wire

TraceNext == TSer \/ TParse \/ TReser
TraceConstraint ==
    /\ RoundTrip /\ FixPoint /\ ReparseStable /\ WireExact /\ ClassOfCode
    /\ StrictRequest /\ StrictResponse /\ StrictError /\ StrictBatchRequest /\ Total
    /\ Progress
=============================================================================
