------------------------------ MODULE Binding ------------------------------
(***************************************************************************)
(* How a JSON-RPC params member reaches a registered Python callable        *)
(* (pjrpc/server/dispatcher.py Method.bind / ViewMethod.bind,               *)
(* validators/base.py bind / signature): Python call binding transcribed    *)
(* (DESIGN.md Appendix B), context injection in its three modes, and the    *)
(* pipeline  Bind -> (-32602 without running | Exec -> result unchanged).   *)
(***************************************************************************)
EXTENDS Naturals, Sequences, FiniteSets, TLC

CONSTANTS MaxP,      \* max number of declared parameters
          MaxPos,    \* max length of a positional params list
          KindSet,   \* parameter kinds signatures are drawn from (all five for C04; positional-or-keyword / keyword-only for C17)
          InputKinds,\* {"pos", "named"} or a subset
          Deviations \* names of the known, unrepaired deviations of the implementation that are switched on ({} = intended design)

AllNames == <<"p1", "p2", "p3", "p4">>
KeyNames == {"p1", "p2", "p3", "p4", "zz"}          \* zz: a name no parameter has
PosVal   == <<"v1", "v2", "v3", "v4", "v5">>        \* j-th element of a positional list
NamedVal == [p1 |-> "n_p1", p2 |-> "n_p2", p3 |-> "n_p3", p4 |-> "n_p4", zz |-> "n_zz"]
Rank == [PO |-> 1, PK |-> 2, VP |-> 3, KO |-> 4, VK |-> 5]
Kinds == DOMAIN Rank

VARIABLES sig,       \* Seq of [name, kind, dflt]
          ctx,       \* [mode \in {"none","byname","positional","view"}, name, xname]  name: the context parameter ("na" if none);
                     \* xname: a defaulted parameter taken out by the validator's / extractor's exclusion predicate ("na" if none)
          flavour,   \* "func" | "coro" | "view"
          route,     \* how the method reached the dispatcher: "direct" (dispatcher.add / registry.view) | "merged" (own registry, then add_methods)
          inp,       \* [k |-> "pos", n |-> 0..MaxPos, keys |-> {}] | [k |-> "named", n |-> 0, keys |-> SUBSET KeyNames]
          pc,        \* "recv" "bound" "failed" "dontcare" "ran" "replied"
          received,  \* what the body observed: [rec, va, kw] or NoRecv
          reply      \* "none" | "result" | "c_m32602"
vars == <<sig, ctx, flavour, route, inp, pc, received, reply>>

(************************* Python's signature grammar **********************)
Grammatical(s) ==
    /\ \A i, j \in DOMAIN s : i < j => Rank[s[i].kind] <= Rank[s[j].kind]
    /\ Cardinality({i \in DOMAIN s : s[i].kind = "VP"}) <= 1
    /\ Cardinality({i \in DOMAIN s : s[i].kind = "VK"}) <= 1
    /\ \A i \in DOMAIN s : s[i].kind \in {"VP", "VK"} => ~s[i].dflt
    /\ \A i, j \in DOMAIN s : (i < j /\ s[i].kind \in {"PO", "PK"} /\ s[j].kind \in {"PO", "PK"} /\ s[i].dflt) => s[j].dflt
SigOf(f) == [i \in DOMAIN f |-> [name |-> AllNames[i], kind |-> f[i][1], dflt |-> f[i][2]]]
SigsOfLen(n) == {s \in {SigOf(f) : f \in [1..n -> KindSet \X BOOLEAN]} : Grammatical(s)}

\* admissible context designations for a signature and flavour
CtxModes(s, fl) ==
    IF fl = "view" THEN {[mode |-> "none", name |-> "na"], [mode |-> "view", name |-> "na"]}
    ELSE {[mode |-> "none", name |-> "na"]}
         \cup {[mode |-> "byname", name |-> s[i].name] : i \in {j \in DOMAIN s : s[j].kind \in {"PK", "KO"}}}
         \cup (IF Len(s) >= 1 /\ s[1].kind \in {"PO", "PK"} THEN {[mode |-> "positional", name |-> s[1].name]} ELSE {})
\* ... combined with: no excluded parameter, or one defaulted positional-or-keyword / keyword-only parameter (not the context one)
\* removed by the exclusion predicate (dependency injection)
CtxChoices(s, fl) == {[mode |-> c.mode, name |-> c.name, xname |-> x] : c \in CtxModes(s, fl),
                        x \in {"na"} \cup {s[i].name : i \in {j \in DOMAIN s : s[j].kind \in {"PK", "KO"} /\ s[j].dflt}}}
Inputs == {i \in {[k |-> "pos", n |-> n, keys |-> {}] : n \in 0..MaxPos}
                     \cup {[k |-> "named", n |-> 0, keys |-> S] : S \in SUBSET KeyNames} : i.k \in InputKinds}

NoRecv == [ran |-> FALSE, vctx |-> "na", rec |-> [p1 |-> "na", p2 |-> "na", p3 |-> "na", p4 |-> "na"], va |-> <<>>,
           kw |-> [x \in KeyNames |-> "-"]]
InitWith(s, c, fl, rt, i) == sig = s /\ ctx = c /\ flavour = fl /\ route = rt /\ inp = i /\ pc = "recv"
                         /\ received = NoRecv /\ reply = "none"
Init == \E n \in 0..MaxP : \E s \in SigsOfLen(n), fl \in {"func", "coro", "view"}, rt \in {"direct", "merged"}, i \in Inputs :
            \E c \in CtxChoices(s, fl) : c.xname # c.name /\ InitWith(s, c, fl, rt, i)

(***************************** call binding ********************************)
\* the signature the client's params are bound against: the context parameter is taken out
\* parameters taken out of the signature the client binds against: the context parameter and the excluded one
IsRemoved(x) == (ctx.mode \in {"byname", "positional"} /\ x = ctx.name) \/ (ctx.xname # "na" /\ x = ctx.xname)
Eff == SelectSeq(sig, LAMBDA p : ~IsRemoved(p.name))
PosPars == SelectSeq(Eff, LAMBDA p : p.kind \in {"PO", "PK"})
HasKind(k) == \E i \in DOMAIN Eff : Eff[i].kind = k
ParNamed(x) == {i \in DOMAIN Eff : Eff[i].name = x}
KindOf(x) == IF ParNamed(x) = {} THEN "none" ELSE Eff[CHOOSE i \in ParNamed(x) : TRUE].kind

\* verdict \in {"ok", "fail", "dontcare"}
PosVerdict(n) ==
    IF n > Len(PosPars) /\ ~HasKind("VP") THEN "fail"                                     \* surplus
    ELSE IF \E j \in DOMAIN PosPars : j > n /\ ~PosPars[j].dflt THEN "fail"               \* missing
    ELSE IF \E i \in DOMAIN Eff : Eff[i].kind = "KO" /\ ~Eff[i].dflt THEN "fail"          \* missing keyword-only
    ELSE "ok"
NamedVerdict(S) ==
    LET fills(x)  == KindOf(x) \in {"PK", "KO"}
        strays    == {x \in S : ~fills(x)}                                                \* unknown names, *args/**kw names, positional-only names
        missing   == \E i \in DOMAIN Eff : Eff[i].kind \in {"PO", "PK", "KO"} /\ ~Eff[i].dflt /\ ~(Eff[i].name \in S /\ fills(Eff[i].name))
    IN IF strays # {} /\ ~HasKind("VK") THEN "fail"
       ELSE IF \E x \in strays : KindOf(x) = "PO" THEN "dontcare"       \* inspect.Signature.bind and a real call disagree (Appendix B)
       ELSE IF \E x \in strays : IsRemoved(x) THEN "dontcare"   \* client names the context parameter, **kw present (3.3)
       ELSE IF missing THEN "fail"
       ELSE "ok"
Verdict == IF inp.k = "pos" THEN PosVerdict(inp.n) ELSE NamedVerdict(inp.keys)

\* what a direct call f(*L) / f(**M) makes the body see, plus the server context
PosIndex(name) == CHOOSE j \in DOMAIN PosPars : PosPars[j].name = name
Rec(name) ==
    LET ps == {i \in DOMAIN sig : sig[i].name = name} IN
    IF ps = {} THEN "na"
    ELSE LET p == sig[CHOOSE i \in ps : TRUE] IN
         IF ctx.mode \in {"byname", "positional"} /\ ctx.name = name THEN "CTX"
         ELSE IF ctx.xname = name THEN "DEFAULT"
         ELSE IF p.kind = "VP" THEN "VA" ELSE IF p.kind = "VK" THEN "KW"
         ELSE IF inp.k = "pos" THEN (IF p.kind \in {"PO", "PK"} /\ PosIndex(name) <= inp.n THEN PosVal[PosIndex(name)] ELSE "DEFAULT")
         ELSE (IF name \in inp.keys /\ p.kind \in {"PK", "KO"} THEN NamedVal[name] ELSE "DEFAULT")
ExpectedRec == [p1 |-> Rec("p1"), p2 |-> Rec("p2"), p3 |-> Rec("p3"), p4 |-> Rec("p4")]
ExpectedVa  == IF inp.k = "pos" /\ inp.n > Len(PosPars) THEN [j \in 1..(inp.n - Len(PosPars)) |-> PosVal[Len(PosPars) + j]] ELSE <<>>
ExpectedKw  == [x \in KeyNames |-> IF inp.k = "named" /\ x \in inp.keys /\ KindOf(x) \notin {"PK", "KO"} THEN NamedVal[x] ELSE "-"]
ExpectedVctx == IF flavour # "view" THEN "na" ELSE IF ctx.mode = "view" THEN "CTX" ELSE "none"
Expected == [ran |-> TRUE, vctx |-> ExpectedVctx, rec |-> ExpectedRec, va |-> ExpectedVa, kw |-> ExpectedKw]
CtxOk(r) == /\ (ctx.mode \in {"byname", "positional"} => r.rec[ctx.name] = "CTX")
            /\ r.vctx = ExpectedVctx
            /\ \A x \in DOMAIN r.rec : (r.rec[x] = "CTX") => (ctx.mode \in {"byname", "positional"} /\ ctx.name = x)

(***************************************************************************)
(* Known deviation "KwRebind" (known_findings.json): pjrpc re-applies the   *)
(* bound arguments with functools.partial(method, **arguments), i.e. BY     *)
(* NAME.  That is not the same call whenever the client's params fill a     *)
(* positional-only parameter, leave a surplus for *args, or leave stray     *)
(* names for **kw.  In exactly that region the body then runs with other    *)
(* arguments or the call fails with -32000.                                 *)
(***************************************************************************)
Strays == IF inp.k = "named" THEN {x \in inp.keys : KindOf(x) \notin {"PK", "KO"}} ELSE {}
DevRegion == /\ Verdict = "ok"
             /\ \/ inp.k = "pos" /\ \E j \in DOMAIN PosPars : j <= inp.n /\ PosPars[j].kind = "PO"
                \/ inp.k = "pos" /\ inp.n > Len(PosPars)
                \/ Strays # {}
DevOn == "KwRebind" \in Deviations /\ DevRegion

(******************************* pipeline **********************************)
Bind == /\ pc = "recv"
        /\ pc' = CASE Verdict = "ok" -> "bound" [] Verdict = "fail" -> "failed" [] OTHER -> "dontcare"
        /\ UNCHANGED <<sig, ctx, flavour, route, inp, received, reply>>
\* the body runs with exactly the direct-call arguments (+ context); in a don't-care corner with anything, but the server context
Exec(r) == /\ pc \in {"bound", "dontcare"}
           /\ ((pc = "bound" /\ ~DevOn) => r = Expected)
           /\ CtxOk(r) /\ r.ran
           /\ received' = r /\ pc' = "ran"
           /\ UNCHANGED <<sig, ctx, flavour, route, inp, reply>>
ReplyResult == /\ pc = "ran" /\ reply' = "result" /\ pc' = "replied"
               /\ UNCHANGED <<sig, ctx, flavour, route, inp, received>>
ReplyInvalidParams == /\ pc \in {"failed", "dontcare"} /\ reply' = "c_m32602" /\ pc' = "replied"
                      /\ UNCHANGED <<sig, ctx, flavour, route, inp, received>>
Dev_ReplyServerError == /\ DevOn /\ pc = "bound" /\ reply' = "c_m32000" /\ pc' = "replied"
                        /\ UNCHANGED <<sig, ctx, flavour, route, inp, received>>
Next == Bind \/ Exec(Expected) \/ ReplyResult \/ ReplyInvalidParams \/ Dev_ReplyServerError
Spec == Init /\ [][Next]_vars

(************ C17: what the generated documents must list ********************)
\* exactly the names the dispatcher binds by name, required = those without a default; the context / excluded parameter in neither
DocNames    == {Eff[i].name : i \in {j \in DOMAIN Eff : Eff[j].kind \in {"PK", "KO"}}}
DocRequired == {Eff[i].name : i \in {j \in DOMAIN Eff : Eff[j].kind \in {"PK", "KO"} /\ ~Eff[j].dflt}}
\* ... consequently (checked by TLC on the model): satisfying names + required <=> binding succeeds
DocumentedIsAccepted == (inp.k = "named" /\ \A i \in DOMAIN Eff : Eff[i].kind \in {"PK", "KO"}) =>
                           ((inp.keys \subseteq DocNames /\ DocRequired \subseteq inp.keys) <=> Verdict = "ok")

(****************************** properties *********************************)
Ran == received.ran
NoBindNoRun  == (Verdict = "fail") => (~Ran /\ reply \in {"none", "c_m32602"})
ArgsExact    == (Ran /\ Verdict = "ok" /\ ~DevOn) => received = Expected
CtxIsServers == Ran => CtxOk(received)
ResultUnchanged == (pc = "replied" /\ Verdict = "ok" /\ ~DevOn) => reply = "result"
=============================================================================
