----------------------------- MODULE JsonValues -----------------------------
(***************************************************************************)
(* A finite alphabet of abstract JSON values ("tags").  Every tag has one  *)
(* concrete representative on the Python side (mbt/jsonvals.py).  The      *)
(* alphabet is chosen so that every branch of pjrpc's member checks and    *)
(* every distinction a property draws has a representative.                *)
(***************************************************************************)
EXTENDS Naturals, Sequences, FiniteSets

Absent     == "absent"           \* the member is missing
NullTags   == {"null"}
BoolTags   == {"true", "false"}
IntTags    == {"i0", "i1", "im1", "i2", "i3", "ibig"}  \* 0 1 -1 2 3 2^63+1
FloatTags  == {"f1_0", "f1_5", "f2_0"}                 \* 1.0 1.5 2.0
MethodTags == {"m_ok", "m_one", "m_perr", "m_exc", "m_unk", "m_int"}  \* method names (m_unk is never registered; m_int: a view method whose view cannot be built)
StrTags    == {"s_empty", "s_a", "s_b", "s_1", "s_v20", "s_v10", "s_esc", "mw_short", "mw_rewritten"}
                \cup MethodTags
              \* ""  "a"  "b"  "1"  "2.0"  "1.0"  escapes+control+astral
ArrTags    == {"a_empty", "a_1", "a_deep", "a_deep64"}   \* []  [1]  nested  [1, 64 levels of nesting]
ObjTags    == {"o_empty", "o_a", "o_deep", "r_none", "r_a1", "r_deep", "r_deep64", "r_one_a1"}
              \* {}  {"a":1}  nested; r_*: the argument records the instrumented methods return
Values     == NullTags \cup BoolTags \cup IntTags \cup FloatTags \cup StrTags
                \cup ArrTags \cup ObjTags
NonObjects == Values \ ObjTags
NonArrays  == Values \ ArrTags

TypeOf(t) == CASE t \in NullTags  -> "null"
               [] t \in BoolTags  -> "boolean"
               [] t \in IntTags   -> "integer"
               [] t \in FloatTags -> "float"
               [] t \in StrTags   -> "string"
               [] t \in ArrTags   -> "array"
               [] t \in ObjTags   -> "object"
               [] OTHER           -> "none"

\* Python truthiness of the representative
Falsy == {"null", "false", "i0", "s_empty", "a_empty", "o_empty"}
Truthy(t) == t \in Values /\ t \notin Falsy

\* what JSON-RPC 2.0 (as pjrpc reads it: of the numbers, integers only) admits as an id
IdTags == IntTags \cup StrTags
=============================================================================
