INIT TraceInit
NEXT TraceNext
CONSTRAINT TraceConstraint
POSTCONDITION Post
CHECK_DEADLOCK FALSE
CONSTANTS
  IdAlpha <- EmptySet
  MaxOps = 0
  MaxIds = 0
  MaxExtend = 0
