INVARIANT EmitScn
SPECIFICATION Spec
CONSTANTS
  IdAlpha <- IdsFull
  MaxOps = 4
  MaxIds = 4
  MaxExtend = 3
CONSTRAINT Bound
CHECK_DEADLOCK FALSE
