SPECIFICATION LiveSpec
CONSTANTS
  Cfgs <- EmptyC
CHECK_DEADLOCK FALSE
PROPERTY Termination
