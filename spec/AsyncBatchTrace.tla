--------------------------- MODULE AsyncBatchTrace ---------------------------
(* Trace validation of AsyncDispatcher batch executions under a controlled asyncio schedule. *)
EXTENDS AsyncBatch, TraceBase

TraceInit == tid \in 1..NTraces /\ l = 1 /\ InitWith(Traces[tid].scn.concurrent, Traces[tid].scn.elems)
T(i) == E.tag = i
Tagged(A(_)) == E.tag \in DOMAIN elems /\ A(E.tag)
TEnter   == IsEvent("Enter")   /\ Tagged(Enter)      \* logged by the probe middleware on entry
TExec    == IsEvent("Exec")    /\ Tagged(Exec)       \* logged by the method body
TEh      == IsEvent("Eh")      /\ Tagged(Eh)         \* logged by the error handler
TEh2     == IsEvent("Eh2")     /\ Tagged(Eh2)        \* logged by the handler registered for one code only
TSusp    == IsEvent("Susp")    /\ Tagged(Susp)       \* logged just before awaiting a driver-owned future
TDone    == IsEvent("Done")    /\ Tagged(Finish)     \* logged by the probe middleware before it returns
TRelease == IsEvent("Release") /\ Tagged(Release)    \* logged by the driver when it completes a future (loop idle)
TReturn  == IsEvent("Return")  /\ Assemble /\ out' = E.out
TSilent  == (Kick \/ Pick) /\ Silent
TraceNext == TEnter \/ TExec \/ TEh \/ TEh2 \/ TSusp \/ TDone \/ TRelease \/ TReturn \/ TSilent
TraceConstraint == TypeOK /\ OrderKept /\ ExactlyOnce /\ NeverTwice /\ Sequential /\ Progress
=============================================================================
