---- MODULE Retry_c09_thorough ----
EXTENDS RetryMC
MyInit == InitC09(4)
====
