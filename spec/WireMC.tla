------------------------------- MODULE WireMC -------------------------------
(* Model-checking / scenario-emission instance of Wire: the finite alphabets. *)
EXTENDS Wire, Json

NonObjShapes == {"null", "true", "i0", "i1", "f1_5", "s_empty", "s_a", "a_empty", "a_1"}

(**************************** request documents ****************************)
JsonrpcFull == {Absent, "s_v20", "s_v10", "f2_0", "null", "a_empty"}
IdFull      == {Absent, "null", "true", "false", "i0", "i1", "im1", "ibig", "f1_0", "f1_5",
                "s_empty", "s_a", "s_1", "a_1", "o_a"}
MethodFull  == {Absent, "null", "s_empty", "s_a", "s_1", "i1", "true", "a_1", "o_a"}
ParamsFull  == {Absent, "null", "a_empty", "a_1", "o_empty", "o_a", "i0", "s_a", "true", "f1_5"}

NaReq(t) == [shape |-> t, jsonrpc |-> NA, id |-> NA, method |-> NA, params |-> NA]
ReqDocsOver(J, I, M, P) ==
    [shape : {"obj"}, jsonrpc : J, id : I, method : M, params : P] \cup {NaReq(t) : t \in NonObjShapes}
ReqDocsFull  == ReqDocsOver(JsonrpcFull, IdFull, MethodFull, ParamsFull)           \* 8 100 + 9
ReqDocsQuick == ReqDocsFull

(***************************** error documents *****************************)
CodeFull    == {Absent, "null", "true", "f1_0", "s_1", "i0", "i1", "im1", "c_m32601", "c_2001", "c_2002", "ibig"}
MessageFull == {Absent, "null", "s_empty", "s_a", "i1", "a_1"}
DataFull    == {Absent, "null", "i0", "s_empty", "o_a"}
ErrObjsOver(C, M, D) == [shape : {"obj"}, code : C, message : M, data : D]
ErrDocsOver(C, M, D) == ErrObjsOver(C, M, D) \cup {ScalarErr(t) : t \in NonObjShapes}
ErrDocsFull  == ErrDocsOver(CodeFull, MessageFull, DataFull)
ErrDocsQuick == ErrDocsFull

(**************************** response documents ***************************)
ResultFull == {Absent, "null", "false", "i0", "s_empty", "a_empty", "o_empty", "true", "i1", "f1_5",
               "s_a", "a_1", "o_a"}
NaResp(t) == [shape |-> t, jsonrpc |-> NA, id |-> NA, result |-> NA, error |-> AbsentErr]
RespDocsOver(J, I, R, E) ==
    [shape : {"obj"}, jsonrpc : J, id : I, result : R, error : E] \cup {NaResp(t) : t \in NonObjShapes}
RespDocsFull  == RespDocsOver(JsonrpcFull, IdFull, ResultFull,
                              {AbsentErr} \cup ErrDocsOver(CodeFull, MessageFull, DataFull))
RespDocsQuick == RespDocsOver({Absent, "s_v20", "s_v10"},
                              {Absent, "null", "i1", "s_a", "true", "f1_0", "a_1"},
                              {Absent, "null", "i0", "false", "s_empty", "a_empty", "o_empty", "i1", "s_a", "o_a"},
                              {AbsentErr, ScalarErr("null"), ScalarErr("s_a"), ScalarErr("a_1")} \cup
                              ErrObjsOver({Absent, "i0", "i1", "true", "s_1", "c_m32601"},
                                          {Absent, "s_empty", "s_a", "i1"}, {Absent, "null", "i0"}))

(******************************* batches ***********************************)
RD(j, i, m, p) == [shape |-> "obj", jsonrpc |-> j, id |-> i, method |-> m, params |-> p]
BatchElemReq == {RD("s_v20", "i1", "s_a", "a_1"), RD("s_v20", "i1", "s_b", Absent),
                 RD("s_v20", "s_1", "s_a", "o_a"), RD("s_v20", "i2", "s_a", Absent),
                 RD("s_v20", Absent, "s_a", "a_1"), RD("s_v20", "null", "s_b", Absent),
                 RD("s_v10", "i3", "s_a", Absent), RD("s_v20", "true", "s_a", Absent),
                 RD("s_v20", "i3", "i1", Absent), NaReq("i1"), NaReq("a_empty")}
SeqsUpTo(S, n) == UNION {[1..k -> S] : k \in 0..n}
BatchReqDocsOver(n) == {[shape |-> "arr", els |-> s] : s \in SeqsUpTo(BatchElemReq, n)}
                        \cup {[shape |-> t, els |-> <<>>] : t \in {"null", "i1", "s_a", "o_empty", "o_a", "true"}}
BatchReqDocsQuick == BatchReqDocsOver(2)
BatchReqDocsFull  == BatchReqDocsOver(3)

OkErr == [shape |-> "obj", code |-> "c_m32601", message |-> "s_a", data |-> Absent]
BadErr == [shape |-> "obj", code |-> "s_1", message |-> "s_a", data |-> Absent]
PD(j, i, r, e) == [shape |-> "obj", jsonrpc |-> j, id |-> i, result |-> r, error |-> e]
BatchElemResp == {PD("s_v20", "i1", "i1", AbsentErr), PD("s_v20", "i1", Absent, OkErr),
                  PD("s_v20", "s_1", "null", AbsentErr), PD("s_v20", "i2", "s_a", AbsentErr),
                  PD("s_v20", "null", Absent, OkErr), PD("s_v20", Absent, "i0", AbsentErr),
                  PD("s_v20", "i3", Absent, BadErr), PD("s_v10", "i3", "i1", AbsentErr),
                  PD("s_v20", "i3", Absent, AbsentErr), NaResp("i1")}
BatchObjResp == {PD("s_v20", "null", Absent, OkErr), PD("s_v20", Absent, Absent, OkErr),
                 PD("s_v20", "null", Absent, BadErr), PD("s_v20", "i1", Absent, OkErr),
                 PD("s_v20", "null", "i1", AbsentErr), PD(Absent, "null", Absent, OkErr),
                 PD("s_v10", "null", Absent, OkErr), PD("s_v20", "null", "i1", OkErr)}
BatchRespDocsOver(n) ==
    {[shape |-> "arr", els |-> s, obj |-> NoRespDoc] : s \in SeqsUpTo(BatchElemResp, n)}
    \cup {[shape |-> "obj", els |-> <<>>, obj |-> o] : o \in BatchObjResp}
    \cup {[shape |-> t, els |-> <<>>, obj |-> NoRespDoc] : t \in {"null", "i1", "s_a", "true"}}
BatchRespDocsQuick == BatchRespDocsOver(2)
BatchRespDocsFull  == BatchRespDocsOver(3)

BasesAll == {"JsonRpcError", "VerifBaseError"}

(****************************** messages (C05) *****************************)
MsgIds == {"notif", "i0", "i1", "im1", "ibig", "s_empty", "s_a", "s_1", "s_esc"}
ReqMsgsFull == [method : {"s_a", "s_empty", "s_esc"},
                params : {"none", "a_1", "a_deep", "o_a", "o_deep"}, id : MsgIds]
ErrCodes == {"i0", "i1", "im1", "ibig", "c_m32700", "c_m32601", "c_m32000", "c_m32050", "c_2001", "c_2002"}
ErrMsgsOver(B) == {[cls |-> ClassOf(c, b), code |-> c, message |-> m, data |-> d] :
                     c \in ErrCodes, m \in {"s_a", "s_empty", "s_esc"},
                     d \in {Absent, "null", "i0", "false", "s_empty", "a_empty", "o_a", "a_deep"}, b \in B}
ErrMsgsFull == ErrMsgsOver(BasesAll)
RespIds == {"null", "i0", "i1", "im1", "ibig", "s_empty", "s_a", "s_1"}
RespMsgsFull == {[id |-> i, k |-> "result", v |-> r, err |-> NoErr] :
                    i \in RespIds, r \in {"null", "false", "i0", "s_empty", "a_empty", "o_empty", "i1",
                                          "f1_5", "s_esc", "a_deep", "o_deep", "ibig"}}
                \cup {[id |-> i, k |-> "error", v |-> NA, err |-> e] :
                        i \in RespIds, e \in ErrMsgsOver({"JsonRpcError"})}
BatchElemReqMsg == {[method |-> "s_a", params |-> "a_1", id |-> "i1"],
                    [method |-> "s_b", params |-> "none", id |-> "s_1"],
                    [method |-> "s_a", params |-> "o_a", id |-> "notif"],
                    [method |-> "s_a", params |-> "none", id |-> "i0"],
                    [method |-> "s_b", params |-> "a_deep", id |-> "notif"]}
NoDupReq(s) == ~HasDup([i \in DOMAIN s |-> s[i].id], "notif")
BatchReqMsgsOver(n) == {s \in SeqsUpTo(BatchElemReqMsg, n) : Len(s) > 0 /\ NoDupReq(s)}
BatchReqMsgsQuick == BatchReqMsgsOver(2)
BatchReqMsgsFull  == BatchReqMsgsOver(3)
E1 == [cls |-> "MethodNotFoundError", code |-> "c_m32601", message |-> "s_a", data |-> Absent]
E2 == [cls |-> "JsonRpcError", code |-> "i1", message |-> "s_esc", data |-> "null"]
E3 == [cls |-> "JsonRpcError", code |-> "im1", message |-> "s_a", data |-> "i0"]     \* a code no class is registered for: the supplied base class
BatchElemRespMsg == {[id |-> "i1", k |-> "result", v |-> "null", err |-> NoErr],
                     [id |-> "s_1", k |-> "result", v |-> "a_deep", err |-> NoErr],
                     [id |-> "i0", k |-> "error", v |-> NA, err |-> E1],
                     [id |-> "null", k |-> "error", v |-> NA, err |-> E2],
                     [id |-> "s_a", k |-> "error", v |-> NA, err |-> E3],
                     [id |-> "null", k |-> "result", v |-> "i0", err |-> NoErr]}
NoDupResp(s) == ~HasDup([i \in DOMAIN s |-> s[i].id], "null")
BatchRespMsgsOver(n) ==
    {[k |-> "list", err |-> NoErr, els |-> s] : s \in {t \in SeqsUpTo(BatchElemRespMsg, n) : NoDupResp(t)}}
    \cup {[k |-> "error", err |-> e, els |-> <<>>] : e \in {E1, E2, E3}}
BatchRespMsgsQuick == BatchRespMsgsOver(2)
BatchRespMsgsFull  == BatchRespMsgsOver(3)

Empty == {}

(**************************** scenario emission ****************************)
EmitScn == (pc \in {"built", "serialized"} /\ out.v = "none" /\ (pc = "built" \/ kind \in ParseKinds)) =>
              PrintT(<<"SCN", ToJson([kind |-> kind, base |-> base, msg |-> msg, wire |-> wire])>>)
InitOnly == Init /\ [][FALSE]_vars
=============================================================================
