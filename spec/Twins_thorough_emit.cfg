INIT Init
NEXT Next
CONSTANTS
  Corpus <- C22
  MaxLen = 3
  Deviations = {}
CONSTRAINT Bound
CHECK_DEADLOCK FALSE
INVARIANT EmitScn
