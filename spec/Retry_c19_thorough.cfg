INIT MyInit
NEXT Next
CONSTANTS
  Cfgs <- EmptyC
CHECK_DEADLOCK FALSE
INVARIANT AtMostNPlus1
INVARIANT ResendExactlyWhen
INVARIANT NoResendAfterFinal
INVARIANT SleepsAreBackoffPrefix
INVARIANT LastOutcomeUnchanged
INVARIANT PerRequestReplaces
INVARIANT Paired
INVARIANT CompletionMatchesOutcome
INVARIANT ConfigOrder
INVARIANT CountsEqualOnExit
INVARIANT CountingCore
