----------------------------- MODULE AmqpRpcMC -----------------------------
EXTENDS AmqpRpc, Json
C(k, b) == [kind |-> k, beh |-> b]
CallKinds == {C("call", "ok"), C("call", "err"), C("notify", "ok")}
SeqsOf(S, n) == [1..n -> S]
Cfgs(n) == {[mode |-> m, calls |-> cs] : m \in {"shared", "exclusive"}, cs \in UNION {SeqsOf(CallKinds, k) : k \in 1..n}}
InitQuick == \E c \in Cfgs(2) : InitWith(c)
InitThorough == \E c \in Cfgs(3) : InitWith(c)
\* liveness is checked without close() and stray replies
InitLive == \E c \in Cfgs(2) : InitWith(c)
NextLive == \/ \E i \in Idx : Start(i) \/ Serve \/ \E q \in Queues : DeliverReply(q)
LiveSpec == InitLive /\ [][NextLive]_vars /\ WF_vars(NextLive)
\* a schedule is complete when nothing but stray injection / close is left to do
Quiescent == /\ \A i \in Idx : cst[i] # "new" \/ closed
             /\ reqQ = <<>>
             /\ \A q \in Queues : replyQ[q] = <<>> \/ ~HasConsumer(q)
EmitScn == Quiescent => PrintT(<<"SCN", ToJson([cfg |-> cfg, sched |-> sched])>>)
\* the synchronous (kombu) client blocks in its call until the reply has been delivered: one call at a time, no close()
NoneWaiting == \A i \in Idx : cst[i] # "waiting"
NextSeq == \/ \E i \in Idx : NoneWaiting /\ Start(i)
           \/ Serve
           \/ \E q \in Queues : (\E i \in Idx : cst[i] = "waiting" /\ QueueOf(i) = q) /\ DeliverReply(q)   \* it consumes only while it waits
           \/ \E q \in Queues, c \in {0} \cup Idx, t \in {"json", "text"} : Stray(q, c, t)
EmitSeq == (Quiescent /\ Finished) => PrintT(<<"SCN", ToJson([cfg |-> cfg, sched |-> sched])>>)
NoNext == FALSE /\ UNCHANGED vars
=============================================================================
