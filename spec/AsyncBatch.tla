----------------------------- MODULE AsyncBatch -----------------------------
(***************************************************************************)
(* AsyncDispatcher serving a batch (pjrpc/server/dispatcher.py:593-608) on  *)
(* an asyncio event loop.  Every element is handled by its own coroutine:   *)
(* probe middleware -> method -> (error handler) -> probe middleware exit.  *)
(* Coroutines may suspend at points placed in the middleware (before /      *)
(* after the inner handler), in the method and in the error handler.  The   *)
(* (kinds: ok, plain, fail, fail2 - two different error codes, view - a   *)
(* method of a class based view keeping request state on its instance;    *)
(* view0 - the same on a view registered without a context).               *)
(* loop is modelled as it is: a FIFO ready queue, one running task, tasks   *)
(* run until they suspend or finish; a suspended task becomes ready when    *)
(* the environment releases the future it awaits (Release).                 *)
(*   concurrent = TRUE : asyncio.gather - one task per element              *)
(*   concurrent = FALSE: the elements are awaited one after the other       *)
(***************************************************************************)
EXTENDS Naturals, Sequences, FiniteSets, TLC

CONSTANTS ElemTypes,     \* set of [kind, notif, pre, meth, eh, post]: kind \in {"ok","fail","plain"}; counts of suspension points
          N              \* batch length
VARIABLES concurrent, elems,
          pc,            \* "init" "running" "done"
          running,       \* index of the task that has the CPU, 0 if the loop is idle
          ready,         \* FIFO queue of tasks ready to run
          pos,           \* pos[i]: next step of element i's script
          st,            \* st[i] \in {"new", "active", "susp", "done"}
          sched,         \* the releases so far (the schedule)
          startOrder, finishOrder, execCount,
          out
vars == <<concurrent, elems, pc, running, ready, pos, st, sched, startOrder, finishOrder, execCount, out>>

Rep(x, n) == [j \in 1..n |-> x]
Script(e) == <<"enter">> \o Rep("susp_pre", e.pre) \o <<"exec">> \o Rep("susp_meth", e.meth)
             \o (IF e.kind \in {"fail", "fail2"} THEN <<"eh">> \o Rep("susp_eh", e.eh) ELSE <<>>)
             \o (IF e.kind = "fail" THEN <<"eh2">> ELSE <<>>)      \* handler registered for fail's code only
             \o Rep("susp_post", e.post) \o <<"done">>
Idx == 1..N
StepOf(i) == Script(elems[i])[pos[i]]

InitWith(c, es) ==
    /\ concurrent = c /\ elems = es
    /\ pc = "init" /\ running = 0 /\ ready = <<>>
    /\ pos = [i \in 1..Len(es) |-> 1] /\ st = [i \in 1..Len(es) |-> "new"]
    /\ sched = <<>> /\ startOrder = <<>> /\ finishOrder = <<>> /\ execCount = [i \in 1..Len(es) |-> 0]
    /\ out = <<>>
Init == \E c \in BOOLEAN, es \in [1..N -> ElemTypes] : InitWith(c, es)

\* dispatch() reaches the batch branch: gather schedules all element coroutines, the sequential loop only the first
Kick == /\ pc = "init"
        /\ pc' = "running"
        /\ ready' = IF concurrent THEN [i \in 1..Len(elems) |-> i] ELSE <<1>>
        /\ UNCHANGED <<concurrent, elems, running, pos, st, sched, startOrder, finishOrder, execCount, out>>

\* the loop picks the next ready task
Pick == /\ pc = "running" /\ running = 0 /\ ready # <<>>
        /\ running' = Head(ready) /\ ready' = Tail(ready)
        /\ UNCHANGED <<concurrent, elems, pc, pos, st, sched, startOrder, finishOrder, execCount, out>>

Advance(i) == pos' = [pos EXCEPT ![i] = @ + 1]

\* the probe middleware is entered for element i
Enter(i) == /\ running = i /\ StepOf(i) = "enter"
            /\ st' = [st EXCEPT ![i] = "active"] /\ startOrder' = Append(startOrder, i) /\ Advance(i)
            /\ UNCHANGED <<concurrent, elems, pc, running, ready, sched, finishOrder, execCount, out>>
\* the method body starts
Exec(i)  == /\ running = i /\ StepOf(i) = "exec"
            /\ execCount' = [execCount EXCEPT ![i] = @ + 1] /\ Advance(i)
            /\ UNCHANGED <<concurrent, elems, pc, running, ready, st, sched, startOrder, finishOrder, out>>
\* the error handler starts (failing elements only)
Eh(i)    == /\ running = i /\ StepOf(i) = "eh" /\ Advance(i)
            /\ UNCHANGED <<concurrent, elems, pc, running, ready, st, sched, startOrder, finishOrder, execCount, out>>
\* the handler registered for the code raised by kind "fail" starts (never for "fail2", whose code differs)
Eh2(i)   == /\ running = i /\ StepOf(i) = "eh2" /\ Advance(i)
            /\ UNCHANGED <<concurrent, elems, pc, running, ready, st, sched, startOrder, finishOrder, execCount, out>>
\* the coroutine awaits a pending future: the loop takes over
Susp(i)  == /\ running = i /\ StepOf(i) \in {"susp_pre", "susp_meth", "susp_eh", "susp_post"}
            /\ st' = [st EXCEPT ![i] = "susp"] /\ running' = 0 /\ Advance(i)
            /\ UNCHANGED <<concurrent, elems, pc, ready, sched, startOrder, finishOrder, execCount, out>>
\* the element's handler returns; in sequential mode the same coroutine goes on with the next element
Finish(i) == /\ running = i /\ StepOf(i) = "done"
             /\ st' = [st EXCEPT ![i] = "done"] /\ finishOrder' = Append(finishOrder, i) /\ Advance(i)
             /\ running' = IF ~concurrent /\ i < Len(elems) THEN i + 1 ELSE 0
             /\ UNCHANGED <<concurrent, elems, pc, ready, sched, startOrder, execCount, out>>
\* the environment completes the future element i awaits (only when the loop is idle: the driver waits for quiescence)
Release(i) == /\ pc = "running" /\ running = 0 /\ ready = <<>> /\ st[i] = "susp"
              /\ st' = [st EXCEPT ![i] = "active"] /\ ready' = <<i>> /\ sched' = Append(sched, i)
              /\ UNCHANGED <<concurrent, elems, pc, running, pos, startOrder, finishOrder, execCount, out>>

\* response array: request order, notifications dropped; element i answers with its own id and value
RespOf(i) == [id |-> i, body |-> IF elems[i].kind \in {"fail", "fail2"} THEN "error" ELSE "result", val |-> i]
Assemble == /\ pc = "running" /\ running = 0 /\ ready = <<>> /\ \A i \in DOMAIN elems : st[i] = "done"
            /\ out' = SelectSeq([i \in DOMAIN elems |-> RespOf(i)], LAMBDA r : ~elems[r.id].notif)
            /\ pc' = "done"
            /\ UNCHANGED <<concurrent, elems, running, ready, pos, st, sched, startOrder, finishOrder, execCount>>

Next == Kick \/ Pick \/ Assemble \/ \E i \in DOMAIN elems : Enter(i) \/ Exec(i) \/ Eh(i) \/ Eh2(i) \/ Susp(i) \/ Finish(i) \/ Release(i)
Spec == Init /\ [][Next]_vars
\* the environment eventually completes every future it handed out, the loop eventually runs every ready task
FairSpec == Spec /\ WF_vars(Next)
\* every batch is eventually answered (no schedule strands an element)
Termination == <>(pc = "done")

(****************************** properties *********************************)
\* C10, first sentence: under EVERY interleaving ...
OrderKept == pc = "done" =>
    /\ \A j \in DOMAIN out : out[j] = RespOf(out[j].id)                          \* own id, own result / error
    /\ \A j, k \in DOMAIN out : j < k => out[j].id < out[k].id                  \* request order
    /\ {out[j].id : j \in DOMAIN out} = {i \in DOMAIN elems : ~elems[i].notif}  \* one per call, none per notification
ExactlyOnce == pc = "done" => \A i \in DOMAIN elems : execCount[i] = 1
NeverTwice  == \A i \in DOMAIN elems : execCount[i] <= 1
\* C10, second sentence
InFlight == {i \in DOMAIN elems : st[i] \in {"active", "susp"}}
Sequential == ~concurrent =>
    /\ Cardinality(InFlight) <= 1
    /\ \A j \in DOMAIN startOrder : startOrder[j] = j
    /\ \A j \in DOMAIN finishOrder : finishOrder[j] = j
\* in concurrent mode every element starts before any release (gather really is concurrent) - not demanded by C10
TypeOK == pc \in {"init", "running", "done"} /\ running \in 0..Len(elems)
=============================================================================
