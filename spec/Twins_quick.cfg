INIT Init
NEXT Next
CONSTANTS
  Corpus <- C8
  MaxLen = 3
  Deviations = {}
CONSTRAINT Bound
INVARIANT NothingRetained
INVARIANT BoundedCache
PROPERTY Stateless
CHECK_DEADLOCK FALSE
