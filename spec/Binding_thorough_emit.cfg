INIT Init
CONSTANTS
  MaxP = 4
  Deviations = {}
  MaxPos = 5
CHECK_DEADLOCK FALSE
NEXT NoNext
INVARIANT EmitScn
