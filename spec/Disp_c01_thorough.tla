---- MODULE Disp_c01_thorough ----
EXTENDS DispatcherMC
MyInit == InitC01(3)
====
