INIT InitQuick
NEXT NextSeq
CONSTANTS
  MaxStray = 1
INVARIANT TypeOK
INVARIANT NoCrossTalk
INVARIANT AnswerAfterServe
INVARIANT NotifyFireAndForget
INVARIANT FuturesExact
INVARIANT ServedOnce
INVARIANT ServedInPublishOrder
INVARIANT RaisesOnlyFor
INVARIANT ForeignHarmless
CHECK_DEADLOCK FALSE
