INIT InitThorough
CHECK_DEADLOCK FALSE
NEXT NoNext
INVARIANT EmitScn
