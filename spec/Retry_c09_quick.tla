---- MODULE Retry_c09_quick ----
EXTENDS RetryMC
MyInit == InitC09(2)
LiveSpec == MyInit /\ [][Next]_vars /\ WF_vars(Next)
====
