---- MODULE Retry_c09_quick ----
EXTENDS RetryMC
MyInit == InitC09(2)
====
