----------------------------- MODULE HistoryTrace -----------------------------
(* Retention part of C13: N dispatches, a fresh context object each; after every dispatch the driver forces a garbage
   collection and reports how many of the context objects created so far are still alive and whether the number of
   gc-tracked heap objects grew since the previous dispatch (warm-up dispatches excluded). *)
EXTENDS History, TraceBase
DevView == {"ViewSignatureCache"}
TraceInit == tid \in 1..NTraces /\ l = 1 /\ InitWith(Traces[tid].scn.flavour)
TServed == IsEvent("Served") /\ Serve(1) /\ E.alive = retained' /\ E.grew = (cache' > cache) /\ E.ok = TRUE
TraceNext == TServed
TraceConstraint == NothingRetained /\ BoundedCache /\ Progress
=============================================================================
