-------------------------------- MODULE Retry --------------------------------
(***************************************************************************)
(* The client's send path  retried(traced(_send))  (pjrpc/client/client.py  *)
(* 484-564 / 618-698, pjrpc/client/retry.py): per attempt the tracers see   *)
(* begin, the transport is called, the tracers see end / error, then the    *)
(* retry loop decides: sleep the next backoff delay and try again, or hand  *)
(* the last outcome to the caller.  The environment (transport) chooses the *)
(* outcome of every attempt.                                                *)
(***************************************************************************)
EXTENDS Integers, Sequences, FiniteSets, TLC

CONSTANTS Cfgs      \* set of configurations, see Init

VARIABLES cfg,      \* [kind, req, client, perreq, tracers, ctxmode]   never changes
          phase,    \* "begin" "send" "complete" "decide" "sleep" "done"
          ti,       \* tracer index inside the begin / complete loops
          last,     \* outcome of the current attempt
          used,     \* backoff delays consumed so far
          sent,     \* transport calls so far
          sleeps,   \* Seq of delays slept
          tlog,     \* tracer events: [t, what, ctx, attempt]
          script,   \* outcomes chosen by the environment so far
          result,   \* what the caller got: [k |-> "none"] | [k |-> "response", o] | [k |-> "raise", o]
          past      \* scripts of the requests already completed on this client (cfg.rounds requests are made one after the other
                    \* on the SAME client and strategy objects; every request starts from scratch)
vars == <<cfg, phase, ti, last, used, sent, sleeps, tlog, script, result, past>>

NoStrategy == [n |-> 0, codes |-> "na", excs |-> "na", bo |-> [fam |-> "na", a |-> 0, b |-> 0, max |-> -1, jit |-> <<>>]]

\* a per-request strategy replaces the client-wide one; an explicit None disables retrying
\* (cfg.perreq2, where present, is the per-request strategy of the SECOND request made on the same client)
PerReq == IF Len(past) >= 1 /\ "perreq2" \in DOMAIN cfg THEN cfg.perreq2 ELSE cfg.perreq
Effective(c) == IF PerReq.k = "unset" THEN c.client ELSE PerReq
Strategy == Effective(cfg)
Retrying == Strategy.k = "strategy"

(*************************** outcomes of an attempt *************************)
RespOutcomes  == {"ok", "err_listed", "err_listed2", "err_unlisted", "batch_err_listed"}   \* a response came back and was accepted
ExcOutcomes   == {"exc_listed", "exc_sub", "exc_listed2", "exc_unlisted",                   \* the transport raised
                  "undecodable", "id_mismatch", "unexpected_body", "base_exc", "cancelled"}   \* decoding / relating raised; BaseExceptions
Outcomes(req) == CASE req = "notification" -> {"ok", "exc_listed", "exc_sub", "exc_listed2", "exc_unlisted", "unexpected_body", "base_exc", "cancelled"}
                   [] req = "batch"        -> {"ok", "batch_err_listed", "exc_listed", "exc_sub", "exc_unlisted", "undecodable", "id_mismatch", "base_exc", "cancelled"}
                   [] OTHER                -> {"ok", "err_listed", "err_listed2", "err_unlisted", "exc_listed", "exc_sub", "exc_listed2",
                                               "exc_unlisted", "undecodable", "id_mismatch", "base_exc", "cancelled"}
CodeListed(s, o) == \/ s.codes \in {"one", "several"} /\ o \in {"err_listed", "batch_err_listed"}
                    \/ s.codes = "several" /\ o = "err_listed2"
ExcListed(s, o)  == \/ s.excs \in {"one", "several"} /\ o \in {"exc_listed", "exc_sub"}
                    \/ s.excs = "several" /\ o = "exc_listed2"
Retryable(o) == Retrying /\
                (IF cfg.req = "notification" /\ o = "ok" THEN FALSE       \* a delivered notification has no response to inspect
                 ELSE CodeListed(Strategy.s, o) \/ ExcListed(Strategy.s, o))

(******************************** backoff ***********************************)
RECURSIVE Pow(_, _)
Pow(b, e) == IF e = 0 THEN 1 ELSE b * Pow(b, e - 1)
Fib == <<1, 2, 3, 5, 8, 13>>
Min(a, b) == IF a < b THEN a ELSE b
Jit(bo, k) == IF k <= Len(bo.jit) THEN bo.jit[k] ELSE 0
Cap(bo, v) == IF bo.max >= 0 THEN Min(bo.max, v) ELSE v
\* k-th delay (k = 1..n) of the configured backoff
Delay(bo, k) == CASE bo.fam = "periodic"    -> bo.a + Jit(bo, k)
                  [] bo.fam = "exponential" -> Cap(bo, bo.a * Pow(bo.b, k - 1) + Jit(bo, k))
                  [] bo.fam = "fibonacci"   -> Cap(bo, bo.a * Fib[k] + Jit(bo, k))
DelaysLeft == IF Retrying THEN Strategy.s.n - used ELSE 0

(********************************* actions **********************************)
InitWith(c) == /\ cfg = c /\ phase = "begin" /\ ti = 1 /\ last = "none" /\ used = 0 /\ sent = 0
               /\ sleeps = <<>> /\ tlog = <<>> /\ script = <<>> /\ result = [k |-> "none", o |-> "none"] /\ past = <<>>
Init == \E c \in Cfgs : InitWith(c)

CtxOf == IF cfg.ctxmode = "caller" THEN 0 ELSE sent + 1        \* caller-supplied object, or one default object per attempt
\* every tracer sees the attempt begin, in configuration order
Begin == /\ phase = "begin" /\ ti <= cfg.tracers
         /\ tlog' = Append(tlog, [t |-> ti, what |-> "begin", ctx |-> CtxOf, attempt |-> sent + 1])
         /\ ti' = ti + 1
         /\ UNCHANGED <<cfg, phase, last, used, sent, sleeps, script, result, past>>
BeginDone == /\ phase = "begin" /\ ti > cfg.tracers /\ phase' = "send"
             /\ UNCHANGED <<cfg, ti, last, used, sent, sleeps, tlog, script, result, past>>
\* the request document goes to the transport; the environment decides how the attempt ends
Transport(o) == /\ phase = "send" /\ o \in Outcomes(cfg.req)
                /\ sent' = sent + 1 /\ last' = o /\ script' = Append(script, o)
                /\ phase' = "complete" /\ ti' = 1
                /\ UNCHANGED <<cfg, used, sleeps, tlog, result, past>>
\* every tracer sees exactly one completion: end (the attempt returned) or error (it raised)
Complete == /\ phase = "complete" /\ ti <= cfg.tracers
            /\ tlog' = Append(tlog, [t |-> ti, what |-> IF last \in ExcOutcomes THEN "error" ELSE "end",
                                     ctx |-> IF cfg.ctxmode = "caller" THEN 0 ELSE sent, attempt |-> sent])
            /\ ti' = ti + 1
            /\ UNCHANGED <<cfg, phase, last, used, sent, sleeps, script, result, past>>
CompleteDone == /\ phase = "complete" /\ ti > cfg.tracers /\ phase' = "decide"
                /\ UNCHANGED <<cfg, ti, last, used, sent, sleeps, tlog, script, result, past>>
\* the retry loop: listed outcome and a delay left -> sleep; otherwise the caller gets the last outcome unchanged
Decide == /\ phase = "decide"
          /\ IF Retryable(last) /\ DelaysLeft > 0
             THEN phase' = "sleep" /\ result' = result
             ELSE phase' = "done" /\ result' = [k |-> IF last \in ExcOutcomes THEN "raise" ELSE "response", o |-> last]
          /\ UNCHANGED <<cfg, ti, last, used, sent, sleeps, tlog, script, past>>
Sleep == /\ phase = "sleep"
         /\ sleeps' = Append(sleeps, Delay(Strategy.s.bo, used + 1)) /\ used' = used + 1
         /\ phase' = "begin" /\ ti' = 1
         /\ UNCHANGED <<cfg, last, sent, tlog, script, result, past>>
\* the caller makes the next request on the same client: nothing of the previous request is left over
Again == /\ phase = "done" /\ Len(past) + 1 < cfg.rounds
         /\ past' = Append(past, script)
         /\ phase' = "begin" /\ ti' = 1 /\ last' = "none" /\ used' = 0 /\ sent' = 0 /\ sleeps' = <<>> /\ tlog' = <<>>
         /\ script' = <<>> /\ result' = [k |-> "none", o |-> "none"] /\ UNCHANGED cfg
Next == Again \/ Begin \/ BeginDone \/ (\E o \in RespOutcomes \cup ExcOutcomes : Transport(o)) \/ Complete \/ CompleteDone \/ Decide \/ Sleep
Spec == Init /\ [][Next]_vars
FairSpec == Spec /\ WF_vars(Next)
\* whatever the transport does, the caller eventually gets an outcome (the retry loop is bounded)
Termination == <>(phase = "done" /\ Len(past) + 1 = cfg.rounds)

(******************************** properties ********************************)
Done == phase = "done"
N == IF Retrying THEN Strategy.s.n ELSE 0
\* C09
AtMostNPlus1 == sent <= N + 1
ResendExactlyWhen == \A j \in 1..Len(script) :
                        (j < Len(script) \/ ~Done) =>                 \* attempt j was followed by another one
                           (j < sent => (Retryable(script[j]) /\ j <= N))
NoResendAfterFinal == Done => (~Retryable(script[Len(script)]) \/ Len(script) = N + 1)
SleepsAreBackoffPrefix == /\ Len(sleeps) <= N
                          /\ \A j \in DOMAIN sleeps : sleeps[j] = Delay(Strategy.s.bo, j)
                          /\ (Done => Len(sleeps) = sent - 1)         \* one pause between consecutive sends, none before the first / after the last
                          /\ (~Done => Len(sleeps) \in {sent - 1, sent} \/ sent = 0)
LastOutcomeUnchanged == Done => (result.o = script[Len(script)] /\ result.k = (IF result.o \in ExcOutcomes THEN "raise" ELSE "response"))
PerRequestReplaces == (PerReq.k = "none" => sent <= 1) /\ (PerReq.k = "strategy" => N = PerReq.s.n)
\* C19
Begins(t, a)  == Cardinality({j \in DOMAIN tlog : tlog[j].t = t /\ tlog[j].attempt = a /\ tlog[j].what = "begin"})
Ends(t, a)    == Cardinality({j \in DOMAIN tlog : tlog[j].t = t /\ tlog[j].attempt = a /\ tlog[j].what \in {"end", "error"}})
Paired == /\ \A t \in 1..cfg.tracers, a \in 1..(sent + 1) : Ends(t, a) <= Begins(t, a) /\ Begins(t, a) <= 1
          /\ (Done => \A t \in 1..cfg.tracers, a \in 1..sent : Begins(t, a) = 1 /\ Ends(t, a) = 1)
          /\ \A j, k \in DOMAIN tlog : (tlog[j].t = tlog[k].t /\ tlog[j].attempt = tlog[k].attempt) => tlog[j].ctx = tlog[k].ctx
CompletionMatchesOutcome == \A j \in DOMAIN tlog : tlog[j].what \in {"end", "error"} =>
                               (tlog[j].what = "error") = (script[tlog[j].attempt] \in ExcOutcomes)
ConfigOrder == \A j \in DOMAIN tlog : j < Len(tlog) =>
                  (tlog[j].attempt = tlog[j+1].attempt /\ tlog[j].what = tlog[j+1].what => tlog[j].t < tlog[j+1].t)
CountsEqualOnExit == Done => Cardinality({j \in DOMAIN tlog : tlog[j].what = "begin"})
                             = Cardinality({j \in DOMAIN tlog : tlog[j].what # "begin"})
=============================================================================
