INIT InitState
NEXT Next
CONSTANTS
  Regs <- R4
  PrefixOf <- Pfx
  MaxOps = 6
  Ops <- OpsAll
CONSTRAINT Bound
INVARIANT NamesAreFormula
INVARIANT ViewsExposePublicOnly
CHECK_DEADLOCK FALSE
