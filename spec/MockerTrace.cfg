INIT TraceInit
NEXT TraceNext
CONSTRAINT TraceConstraint
POSTCONDITION Post
CHECK_DEADLOCK FALSE
CONSTANTS
  Endpoints <- E2T
  Methods <- M2T
  MaxOps = 0
  Ops <- EmptySet
