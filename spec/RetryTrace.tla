------------------------------ MODULE RetryTrace ------------------------------
(* Trace validation of real client sends (sync / async, single / batch / notification) against Retry. *)
EXTENDS Retry, TraceBase
Last(s) == s[Len(s)]
TraceInit == tid \in 1..NTraces /\ l = 1 /\ InitWith(Traces[tid].scn.cfg)

\* tracer E.t saw on_request_begin; E.ctx: 0 = the caller's context object, k = the k-th distinct default object
TBegin  == IsEvent("Begin") /\ Begin /\ E.t = ti /\ E.ctx = Last(tlog').ctx /\ E.req_same = TRUE
\* the transport was called for the E.n-th time and answered / failed as scripted (E.o); doc_ok: the text parsed back to the request
TSend   == IsEvent("Send") /\ Transport(E.o) /\ E.n = sent' /\ E.doc_ok = TRUE /\ E.notif = (cfg.req = "notification")
TEnd    == IsEvent("End") /\ Complete /\ Last(tlog').what = "end" /\ E.t = ti /\ E.ctx = Last(tlog').ctx
           /\ E.resp = (IF cfg.req = "notification" THEN "none" ELSE "response")
TError  == IsEvent("Error") /\ Complete /\ Last(tlog').what = "error" /\ E.t = ti /\ E.ctx = Last(tlog').ctx
           /\ E.exc_same = TRUE
TSleep  == IsEvent("Sleep") /\ Sleep /\ E.d = Last(sleeps')
TReturn == IsEvent("Return") /\ phase = "done" /\ result.k = "response" /\ result.o = E.o /\ UNCHANGED vars
TRaise  == IsEvent("Raise") /\ phase = "done" /\ result.k = "raise" /\ result.o = E.o /\ E.same = TRUE /\ UNCHANGED vars
\* the driver starts the next request on the same client
TAgain  == IsEvent("Again") /\ Again
TSilent == (BeginDone \/ CompleteDone \/ Decide) /\ Silent
TraceNext == TAgain \/ TBegin \/ TSend \/ TEnd \/ TError \/ TSleep \/ TReturn \/ TRaise \/ TSilent
TraceConstraint ==
    /\ AtMostNPlus1 /\ ResendExactlyWhen /\ NoResendAfterFinal /\ SleepsAreBackoffPrefix /\ LastOutcomeUnchanged
    /\ PerRequestReplaces /\ Paired /\ CompletionMatchesOutcome /\ ConfigOrder /\ CountsEqualOnExit
    /\ Progress
=============================================================================
