INIT Init
NEXT Next
INVARIANT RefuseExecutesNothing
INVARIANT RelayExact
INVARIANT ExecsAsDispatcher
CHECK_DEADLOCK FALSE
