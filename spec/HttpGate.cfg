INIT Init
NEXT Next
INVARIANT RefuseExecutesNothing
INVARIANT RelayExact
INVARIANT ExecsAsDispatcher
INVARIANT UnknownCharsetNeverFails
CHECK_DEADLOCK FALSE
