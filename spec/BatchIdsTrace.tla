---------------------------- MODULE BatchIdsTrace ----------------------------
(* Trace validation of append / extend histories replayed on real BatchRequest / BatchResponse. *)
EXTENDS BatchIds, TraceBase

TraceInit == tid \in 1..NTraces /\ l = 1 /\ InitWith(Traces[tid].scn.kind, Traces[tid].scn.strict)

\* one event per operation, logged after it returned or raised: verdict + what the batch then exposes
\* through iteration (items), through to_json (json_items) and through len (n)
TOp == /\ IsEvent("Op")
       /\ E.op \in {"append", "extend"} /\ (E.op = "append" => Len(E.ids) = 1)
       /\ Add(E.op, E.ids)
       /\ last' = E.v
       /\ items' = E.items
       /\ E.json_items = E.items
       /\ E.n = Len(E.items)

TraceNext == TOp
TraceConstraint == IdsConsistent /\ NoDuplicates /\ Progress
=============================================================================
