INIT MyInit
NEXT NoNext
INVARIANT EmitScn
CONSTANTS
  Cfgs <- EmptyC
  Texts <- EmptyC
CHECK_DEADLOCK FALSE
