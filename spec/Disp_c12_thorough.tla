---- MODULE Disp_c12_thorough ----
EXTENDS DispatcherMC
MyInit == InitC12(3)
====
