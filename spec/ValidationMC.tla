---------------------------- MODULE ValidationMC ----------------------------
EXTENDS Validation, Json
NoNext == FALSE /\ UNCHANGED vars
EmitScn == pc = "recv" => PrintT(<<"SCN", ToJson([scn |-> scn])>>)
ValsQuick == {"i5", "i0", "im1", "s_abc", "s_5", "true", "null", "a_12", "o_x1", "a_ox1"}
Validators == {"schema", "pyd_coerce", "pyd_nocoerce"}
TypesOf(v) == IF v = "schema" THEN SchemaTypes ELSE PydTypes
S(v, ps, ex, pa, vals, se) == [validator |-> v, vsrc |-> "fresh", sreq |-> FALSE, params |-> ps, extra |-> ex, passing |-> pa, vals |-> vals, setextra |-> se]
P(t, d) == [type |-> t, dflt |-> d]
InitV(V) ==
    \* two parameters, every type pair, last one with / without default, positional prefixes and named subsets
    \/ \E v \in Validators : \E t1 \in TypesOf(v), t2 \in TypesOf(v), d2 \in BOOLEAN, pa \in {"pos", "named"} :
          \E a \in V \cup {"omit"}, b \in V \cup {"omit"} :
             /\ (pa = "pos" => (a = "omit" => b = "omit"))
             /\ InitWith(S(v, <<P(t1, FALSE), P(t2, d2)>>, "none", pa, <<a, b>>, FALSE))
    \* one parameter + a context parameter / a parameter removed by the exclusion predicate; the client may try to set it
    \/ \E v \in Validators : \E t1 \in TypesOf(v), d1 \in BOOLEAN, ex \in {"none", "ctx", "dep"}, pa \in {"pos", "named"}, se \in BOOLEAN :
          \E a \in V \cup {"omit"} :
             /\ (se => (pa = "named" /\ ex # "none"))
             /\ InitWith(S(v, <<P(t1, d1)>>, ex, pa, <<a>>, se))
Sh(s, src) == [s EXCEPT !.vsrc = src]
InitShared(V) ==
    \/ \E v \in Validators : \E t1 \in TypesOf(v), t2 \in TypesOf(v), pa \in {"pos", "named"} : \E a \in V, b \in V \cup {"omit"} :
          InitWith(Sh(S(v, <<P(t1, FALSE), P(t2, TRUE)>>, "none", pa, <<a, b>>, FALSE), "shared"))
    \/ \E pa \in {"pos", "named"} : \E a \in V \cup {"omit"} :
          InitWith(Sh(S("schema", <<P("int", FALSE)>>, "none", pa, <<a>>, FALSE), "shared_default"))
\* the schema lists every parameter as required although the signature gives defaults (schema validator only)
InitSreq(V) == \E t1 \in SchemaTypes, d1 \in BOOLEAN, d2 \in BOOLEAN, pa \in {"pos", "named"} : \E a \in V \cup {"omit"}, b \in {"i5", "s_abc", "omit"} :
                  /\ (pa = "pos" => (a = "omit" => b = "omit")) /\ (d1 => d2)
                  /\ InitWith([S("schema", <<P(t1, d1), P("int", d2)>>, "none", pa, <<a, b>>, FALSE) EXCEPT !.sreq = TRUE])
InitQuick == InitV(ValsQuick) \/ InitShared(ValsQuick) \/ InitSreq(ValsQuick)
InitThorough == InitV(Values) \/ InitShared(Values) \/ InitSreq(Values)
=============================================================================
