---------------------------- MODULE ValidationMC ----------------------------
EXTENDS Validation, Json
NoNext == FALSE /\ UNCHANGED vars
EmitScn == pc = "recv" => PrintT(<<"SCN", ToJson([scn |-> scn])>>)
ValsQuick == {"i5", "i0", "im1", "s_abc", "s_5", "true", "null", "a_12", "o_x1", "a_ox1"}
Validators == {"schema", "pyd_coerce", "pyd_nocoerce"}
NewPyd == {"float", "dictint", "enum"}
TypesOf(v) == IF v = "schema" THEN SchemaTypes ELSE PydTypes \ NewPyd
\* the later additions to the annotation alphabet are paired with each other and with int (not with every other type)
PairOk(v, t1, t2) == \/ (t1 \in TypesOf(v) /\ t2 \in TypesOf(v))
                     \/ (v # "schema" /\ t1 \in NewPyd /\ t2 \in NewPyd \cup {"int"})
                     \/ (v # "schema" /\ t1 = "int" /\ t2 \in NewPyd)
AllTypes(v) == IF v = "schema" THEN SchemaTypes ELSE PydTypes
S(v, ps, ex, pa, vals, se) == [validator |-> v, vsrc |-> "fresh", sreq |-> FALSE, params |-> ps, extra |-> ex, passing |-> pa, vals |-> vals, setextra |-> se, flavour |-> "func"]
Vw(s) == [s EXCEPT !.flavour = "view"]
P(t, d) == [type |-> t, dflt |-> d]
InitV(V) ==
    \* two parameters, every type pair, last one with / without default, positional prefixes and named subsets
    \/ \E v \in Validators : \E t1 \in AllTypes(v), t2 \in AllTypes(v), d2 \in BOOLEAN, pa \in {"pos", "named"} :
          \E a \in V \cup {"omit"}, b \in V \cup {"omit"} :
             /\ PairOk(v, t1, t2)
             /\ (pa = "pos" => (a = "omit" => b = "omit"))
             /\ InitWith(S(v, <<P(t1, FALSE), P(t2, d2)>>, "none", pa, <<a, b>>, FALSE))
    \* one parameter + a context parameter / a parameter removed by the exclusion predicate; the client may try to set it
    \/ \E v \in Validators : \E t1 \in AllTypes(v), d1 \in BOOLEAN, ex \in {"none", "ctx", "dep", "dep_ann"}, pa \in {"pos", "named"}, se \in BOOLEAN :
          \E a \in V \cup {"omit"} :
             /\ (se => (pa = "named" /\ ex # "none"))
             /\ (ex = "dep_ann" => v # "schema")            \* schema-validated methods carry no annotations at all
             /\ (InitWith(S(v, <<P(t1, d1)>>, ex, pa, <<a>>, se)) \/ InitWith(Vw(S(v, <<P(t1, d1)>>, ex, pa, <<a>>, se))))
    \* methods of class based views with two parameters
    \/ \E v \in Validators : \E t1 \in {"int", "bool"}, t2 \in {"int", "intlist"}, d2 \in BOOLEAN, ex \in {"none", "dep_ann"}, pa \in {"pos", "named"} :
          \E a \in V \cup {"omit"}, b \in {"i5", "a_12", "omit"} :
             /\ (pa = "pos" => (a = "omit" => b = "omit")) /\ (ex = "dep_ann" => v # "schema")
             /\ InitWith(Vw(S(v, <<P(t1, FALSE), P(t2, d2)>>, ex, pa, <<a, b>>, FALSE)))
Sh(s, src) == [s EXCEPT !.vsrc = src]
InitShared(V) ==
    \/ \E v \in Validators : \E t1 \in TypesOf(v), t2 \in TypesOf(v), pa \in {"pos", "named"} : \E a \in V, b \in V \cup {"omit"} :
          InitWith(Sh(S(v, <<P(t1, FALSE), P(t2, TRUE)>>, "none", pa, <<a, b>>, FALSE), "shared"))
    \/ \E pa \in {"pos", "named"} : \E a \in V \cup {"omit"} :
          InitWith(Sh(S("schema", <<P("int", FALSE)>>, "none", pa, <<a>>, FALSE), "shared_default"))
\* the schema lists every parameter as required although the signature gives defaults (schema validator only)
InitSreq(V) == \E t1 \in SchemaTypes, d1 \in BOOLEAN, d2 \in BOOLEAN, pa \in {"pos", "named"} : \E a \in V \cup {"omit"}, b \in {"i5", "s_abc", "omit"} :
                  /\ (pa = "pos" => (a = "omit" => b = "omit")) /\ (d1 => d2)
                  /\ InitWith([S("schema", <<P(t1, d1), P("int", d2)>>, "none", pa, <<a, b>>, FALSE) EXCEPT !.sreq = TRUE])
\* three parameters (the last with / without default) over a reduced alphabet
Init3(T, V) == \E v \in Validators : \E t1 \in T, t2 \in T, t3 \in T, d3 \in BOOLEAN, pa \in {"pos", "named"} :
                 \E a \in V \cup {"omit"}, b \in V \cup {"omit"}, c \in V \cup {"omit"} :
                    /\ (pa = "pos" => ((a = "omit" => b = "omit") /\ (b = "omit" => c = "omit")))
                    /\ InitWith(S(v, <<P(t1, FALSE), P(t2, FALSE), P(t3, d3)>>, "none", pa, <<a, b, c>>, FALSE))
InitQuick == InitV(ValsQuick) \/ InitShared(ValsQuick) \/ InitSreq(ValsQuick) \/ Init3({"int", "bool"}, {"i5", "true"})
InitThorough == InitV(Values) \/ InitShared(Values) \/ InitSreq(Values) \/ Init3({"int", "bool", "intlist"}, {"i5", "true", "a_12", "s_abc"})
=============================================================================
