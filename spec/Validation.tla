----------------------------- MODULE Validation -----------------------------
(***************************************************************************)
(* Parameter validators (pjrpc/server/validators/{base,jsonschema,          *)
(* pydantic}.py + dispatcher.py InvalidParams mapping): a call is executed  *)
(* iff its arguments bind to the signature AND satisfy the per-parameter    *)
(* schema fragments / type annotations; excluded parameters (context,       *)
(* exclusion predicate) are neither validated nor settable.                 *)
(***************************************************************************)
EXTENDS Naturals, Sequences, FiniteSets, TLC

Values == {"i5", "i0", "im1", "s_abc", "s_5", "s_x", "true", "null", "a_12", "a_a", "o_k1", "f1_5", "o_x1", "a_ox1"}   \* o_x1 = {"x":1}, a_ox1 = [{"x":1}]
\* JSON-schema fragments: int = {"type":"integer"}, intmin0 = + "minimum":0, intmax0 = + "maximum":0,
\* strenum = {"type":"string","enum":["abc","5"]}, bool = {"type":"boolean"}, intlist = {"type":"array","items":{"type":"integer"}}
\* d4exmin0 = {"type":"integer","minimum":0,"exclusiveMinimum":true} inside a schema that declares "$schema": draft-04
\*            (a boolean exclusiveMinimum is draft-04 syntax: the declared dialect must be honoured)
SchemaTypes == {"int", "intmin0", "intmax0", "strenum", "bool", "intlist", "d4exmin0"}
SchemaConf(T, v) == CASE T = "int"     -> v \in {"i5", "i0", "im1"}
                      [] T = "intmin0" -> v \in {"i5", "i0"}
                      [] T = "intmax0" -> v \in {"i0", "im1"}
                      [] T = "strenum" -> v \in {"s_abc", "s_5"}
                      [] T = "bool"    -> v = "true"
                      [] T = "intlist" -> v = "a_12"
                      [] T = "d4exmin0" -> v = "i5"
\* type annotations: int, str, bool, Optional[int], List[int]: "yes" (already of the type), "no" (cannot be), "co" (convertible: don't-care)
PydTypes == {"int", "str", "bool", "optint", "intlist", "model", "modellist", "float", "dictint", "enum"}
\* model: a pydantic model class with one field x : int; dictint: Dict[str, int]; enum: an Enum class with the values "abc" and "5"
PydConf(T, v) == CASE T = "int"     -> IF v \in {"i5", "i0", "im1"} THEN "yes" ELSE IF v \in {"s_abc", "s_x", "null", "a_12", "a_a", "o_k1", "o_x1", "a_ox1"} THEN "no" ELSE "co"
                   [] T = "optint"  -> IF v \in {"i5", "i0", "im1", "null"} THEN "yes" ELSE IF v \in {"s_abc", "s_x", "a_12", "a_a", "o_k1", "o_x1", "a_ox1"} THEN "no" ELSE "co"
                   [] T = "str"     -> IF v \in {"s_abc", "s_5", "s_x"} THEN "yes" ELSE IF v \in {"null", "a_12", "a_a", "o_k1", "o_x1", "a_ox1"} THEN "no" ELSE "co"
                   [] T = "bool"    -> IF v = "true" THEN "yes" ELSE IF v \in {"null", "a_12", "a_a", "o_k1", "s_abc", "s_x", "f1_5", "i5", "im1", "o_x1", "a_ox1"} THEN "no" ELSE "co"
                   [] T = "intlist" -> IF v = "a_12" THEN "yes" ELSE IF v \in {"i5", "i0", "im1", "s_abc", "s_5", "s_x", "true", "null", "a_a", "o_k1", "f1_5", "o_x1", "a_ox1"} THEN "no" ELSE "co"
                   \* a JSON object is never an instance of the model class already: it must be converted ("co") or is not convertible ("no")
                   [] T = "model"     -> IF v = "o_x1" THEN "co" ELSE "no"
                   [] T = "modellist" -> IF v = "a_ox1" THEN "co" ELSE "no"
                   \* an integer is acceptable where a float is annotated, but it is converted (5 -> 5.0) when coercion is on: "co"
                   [] T = "float"     -> IF v = "f1_5" THEN "yes" ELSE IF v \in {"i5", "i0", "im1", "s_5", "true"} THEN "co" ELSE "no"
                   [] T = "dictint"   -> IF v \in {"o_k1", "o_x1"} THEN "yes" ELSE "no"
                   \* a string is never an enumeration member already: it names one ("co") or does not ("no")
                   [] T = "enum"      -> IF v \in {"s_abc", "s_5"} THEN "co" ELSE "no"

\* scn.vsrc: "fresh" = a validator object of its own; "shared" = one process-wide validator object decorating many methods with
\* per-method arguments; "shared_default" = that shared object's validator-level default schema.  A validator carries no
\* state from call to call, so vsrc never appears in the rules below.
VARIABLES scn,       \* [validator, vsrc, params : Seq([type, dflt]), extra \in {"none","ctx","dep"}, passing, vals : Seq(value | "omit"),
                     \*  setextra : BOOLEAN, flavour \in {"func", "view"}]   -- parameters are named p1, p2, p3; the excluded one "ctx" / "dep";
\*  flavour "view": the method belongs to a class based view (the context, if any, goes to the view constructor) - like the
\*  validator source it appears in no rule below
          pc, received, reply
vars == <<scn, pc, received, reply>>
NoRecv == [ran |-> FALSE, p1 |-> "na", p2 |-> "na", p3 |-> "na", extra |-> "na"]
InitWith(s) == scn = s /\ pc = "recv" /\ received = NoRecv /\ reply = "none"

N == Len(scn.params)
Provided(j) == j <= Len(scn.vals) /\ scn.vals[j] # "omit"
\* binding (all parameters positional-or-keyword, no variadics): a positional list fills a prefix
\* scn.sreq: the JSON schema lists EVERY parameter as required, also those the signature gives a default
SchemaRequiredOk == (scn.validator = "schema" /\ scn.sreq) => \A j \in 1..N : Provided(j)
BindOk == /\ \A j \in 1..N : (~Provided(j)) => scn.params[j].dflt          \* a required parameter is missing
          /\ ~scn.setextra                                                  \* naming an excluded / context parameter is an unknown argument
          /\ (scn.passing = "pos" => \A j \in 1..N : Provided(j) => \A i \in 1..j : Provided(i))
Conf(j) == IF scn.validator = "schema" THEN (IF SchemaConf(scn.params[j].type, scn.vals[j]) THEN "yes" ELSE "no")
           ELSE PydConf(scn.params[j].type, scn.vals[j])
AllYes == \A j \in 1..N : Provided(j) => Conf(j) = "yes"
SomeNo == \E j \in 1..N : Provided(j) /\ Conf(j) = "no"
Verdict == IF ~BindOk \/ SomeNo \/ ~SchemaRequiredOk THEN "reject" ELSE IF AllYes THEN "accept" ELSE "dontcare"

\* what the body receives: the caller's values unchanged (or converted where the don't-care region applies), defaults, server-side extras
ExpectedVal(j) == IF j > N THEN "na" ELSE IF Provided(j) THEN scn.vals[j] ELSE "DEFAULT"
\* "dep": a defaulted parameter the exclusion predicate selects by NAME; "dep_ann": ... selects by its missing annotation
\* (the predicate is then also true for an un-annotated `self` of a view method - which is not a parameter at all)
ExpectedExtra == CASE scn.extra = "ctx" -> "CTX" [] scn.extra \in {"dep", "dep_ann"} -> "DEFAULT" [] OTHER -> "na"
Expected == [ran |-> TRUE, p1 |-> ExpectedVal(1), p2 |-> ExpectedVal(2), p3 |-> ExpectedVal(3), extra |-> ExpectedExtra]
TypeOfParam(j) == scn.params[j].type
TypeClass(T) == CASE T \in {"int", "optint"} -> "t_int" [] T = "str" -> "t_str" [] T = "bool" -> "t_bool" [] T = "model" -> "t_model"
                  [] T = "modellist" -> "t_modellist" [] T = "float" -> "t_float" [] T = "enum" -> "t_enum" [] T = "dictint" -> "t_dict"
                  [] OTHER -> "t_list"
\* with coercion on a convertible value arrives CONVERTED to the annotated type, with coercion off as sent - never anything else
Convertible(j) == j <= N /\ Provided(j) /\ scn.validator # "schema" /\ Conf(j) = "co"
OkValue(j, v) == \/ v = ExpectedVal(j) /\ ~(Convertible(j) /\ scn.validator = "pyd_coerce")
                 \/ /\ Verdict = "dontcare" /\ j <= N /\ Provided(j) /\ Conf(j) = "co" /\ scn.validator = "pyd_coerce"
                    /\ \/ v \in Values /\ PydConf(TypeOfParam(j), v) = "yes"               \* converted to the annotated type
                       \/ v = TypeClass(TypeOfParam(j))                                  \* ... to a value outside the alphabet, of that type
ReceivedOk(r) == r.ran /\ OkValue(1, r.p1) /\ OkValue(2, r.p2) /\ OkValue(3, r.p3) /\ r.extra = ExpectedExtra

Exec(r) == /\ pc = "recv" /\ Verdict \in {"accept", "dontcare"} /\ ReceivedOk(r)
           /\ received' = r /\ pc' = "ran" /\ UNCHANGED <<scn, reply>>
ReplyResult == pc = "ran" /\ reply' = "result" /\ pc' = "replied" /\ UNCHANGED <<scn, received>>
\* -32602 carrying a JSON-encodable description, the body did not run
ReplyInvalid == /\ pc = "recv" /\ Verdict \in {"reject", "dontcare"} /\ reply' = "c_m32602" /\ pc' = "replied"
                /\ UNCHANGED <<scn, received>>
Next == Exec(Expected) \/ ReplyResult \/ ReplyInvalid
Spec == [][Next]_vars

ExecIffConforms == /\ (Verdict = "reject" => ~received.ran /\ reply \in {"none", "c_m32602"})
                   /\ (Verdict = "accept" /\ pc = "replied" => received.ran /\ reply = "result")
ArgsUnchangedOrCoerced == received.ran => ReceivedOk(received)
ExcludedNotSettable == scn.setextra => ~received.ran
=============================================================================
