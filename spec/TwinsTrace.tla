------------------------------ MODULE TwinsTrace ------------------------------
(***************************************************************************)
(* C13, validated methods that look alike: one dispatcher serves            *)
(*   user.get(id: int)   tag.get(id: str)     (pydantic validator)          *)
(*   user.find(q) / tag.find(q) with different JSON schemas (integer/string)*)
(* - functions with the same __name__ and the same parameter names.  The    *)
(* outcome of a call is a function of the call alone, whatever was called   *)
(* before on the same dispatcher / validator objects.                       *)
(***************************************************************************)
EXTENDS History, TraceBase
\* calls: 1 user.get(5) 2 tag.get("abc") 3 user.get("abc") 4 tag.get(5) 5 user.find(5) 6 tag.find("abc") 7 user.find("abc") 8 tag.find(5)
\* - the default validator, two functions with one qualified name and DIFFERENT signatures: load(uid) / load(pid, full=False)
\*    9 user.load{uid} 10 post.load{pid,full} 11 user.load{pid} 12 post.load{uid}
\* - parameterless calls: 13 whoami() (context by name) 14 ping() 15 whoami2() (another method whose context has another name)
\* - ONE function f(a, ctx=None) registered twice: 16 withctx{a,ctx} (context 'ctx': the client may not set it) 17 noctx{a,ctx}
\*    18 withctx{a} 19 noctx{a}
\* - a method that is re-created before every call (the old function object is dropped, its memory may be reused):
\*    20 tmp := f(x), tmp{x}   21 tmp := f(y, z=0), tmp{y}   22 tmp := f(x), tmp{y}
\* - the same function name and signature conv(n: int) under TWO validator objects (coercing / strict):
\*    23 lax.conv("5") 24 strict.conv("5") 25 lax.conv(5) 26 strict.conv(5)
\* - a method that consumes its (nested) argument in place: 27 drain([[1,2,3]]) - the same text again gets the same answer
\* - parameterless calls under a non-coercing pydantic validator: 28 pv0.whoami() (context by name) 29 pv0.ping()
\* - two functions behind ONE ordinary decorator (one shared code object, different signatures): 30 add(1,2) 31 neg(5)
\* - a context-less class based view that keeps scratch data on itself: 32 scratch.note('a') 33 scratch.note('x')
\* - three functions under one pydantic validator that differ only in the TYPE of a default (1, TRUE, 1.0 - equal in Python,
\*   different in JSON), called without parameters: 34 dflt.one() 35 dflt.true() 36 dflt.float()
\* - one method of the default validator called with arguments that are equal in Python and different in JSON:
\*   37 typeof(1) 38 typeof(true) 39 typeof(1.0)
\* - a function registered bare, then given a (pydantic) validator and registered AGAIN under the same name - the later
\*   registration replaces the earlier one: 40 rereg("abc") 41 rereg(5)
TwinOutcome == <<"int", "str", "invalid", "invalid", "int", "str", "invalid", "invalid",
                 "ok", "ok", "invalid", "invalid", "ctx", "pong", "ctx2", "invalid", "a_and_5", "a_and_ctx", "a_and_none",
                 "ok", "ok", "invalid", "int", "invalid", "int", "int",
                 "123", "ctx", "pong", "3", "-5", "noted:a", "noted:x",
                 "int:1", "bool:True", "float:1.0", "int:1", "bool:True", "float:1.0", "invalid", "ran">>
TraceInit == tid \in 1..NTraces /\ l = 1 /\ InitWith("typed")
TCall == IsEvent("Call") /\ E.c \in 1..41 /\ Serve(E.c) /\ E.outcome = TwinOutcome[E.c]
TraceNext == TCall
TraceConstraint == NothingRetained /\ Progress
=============================================================================
