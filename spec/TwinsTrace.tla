------------------------------ MODULE TwinsTrace ------------------------------
(***************************************************************************)
(* C13, validated methods that look alike: one dispatcher serves            *)
(*   user.get(id: int)   tag.get(id: str)     (pydantic validator)          *)
(*   user.find(q) / tag.find(q) with different JSON schemas (integer/string)*)
(* - functions with the same __name__ and the same parameter names.  The    *)
(* outcome of a call is a function of the call alone, whatever was called   *)
(* before on the same dispatcher / validator objects.                       *)
(***************************************************************************)
EXTENDS History, TraceBase
\* calls: 1 user.get(5) 2 tag.get("abc") 3 user.get("abc") 4 tag.get(5) 5 user.find(5) 6 tag.find("abc") 7 user.find("abc") 8 tag.find(5)
TwinOutcome == <<"int", "str", "invalid", "invalid", "int", "str", "invalid", "invalid">>
TraceInit == tid \in 1..NTraces /\ l = 1 /\ InitWith("typed")
TCall == IsEvent("Call") /\ E.c \in 1..8 /\ Serve(E.c) /\ E.outcome = TwinOutcome[E.c]
TraceNext == TCall
TraceConstraint == NothingRetained /\ Progress
=============================================================================
