----------------------------- MODULE RetryCount -----------------------------
(***************************************************************************)
(* The counting core of Retry.tla for an ARBITRARY number of attempts n:    *)
(* integer-only, so that Apalache can discharge an inductive invariant and  *)
(* lift AtMostNPlus1 / "one pause between consecutive sends" from n <= 4    *)
(* (TLC) to every n >= 0.  The environment decides after every send whether *)
(* the outcome is retryable.                                                *)
(***************************************************************************)
EXTENDS Integers
CONSTANT
    \* @type: Int;
    n
VARIABLES
    \* @type: Int;
    sent,
    \* @type: Int;
    used,
    \* @type: Int;
    slept,
    \* @type: Str;
    phase
vars == <<sent, used, slept, phase>>

CInit == n \in Nat
Init == sent = 0 /\ used = 0 /\ slept = 0 /\ phase = "send"
Send == phase = "send" /\ sent' = sent + 1 /\ phase' = "decide" /\ UNCHANGED <<used, slept>>
\* retryable outcome and a delay left: sleep; otherwise the caller gets the outcome
Retry == phase = "decide" /\ used < n /\ used' = used + 1 /\ slept' = slept + 1 /\ phase' = "send" /\ UNCHANGED sent
Finish == phase = "decide" /\ phase' = "done" /\ UNCHANGED <<sent, used, slept>>
Next == Send \/ Retry \/ Finish

TypeOK == sent \in Int /\ used \in Int /\ slept \in Int /\ phase \in {"send", "decide", "done"}
IndInv == /\ n \in Nat
          /\ sent \in Int /\ used \in Int /\ slept \in Int /\ phase \in {"send", "decide", "done"}
          /\ 0 <= used /\ used <= n /\ slept = used
          /\ (phase = "send" => sent = used)
          /\ (phase \in {"decide", "done"} => sent = used + 1)
\* inductive initial condition for Apalache: every variable from a type set, then the invariant
IndInit == /\ sent \in Int /\ used \in Int /\ slept \in Int /\ phase \in {"send", "decide", "done"} /\ IndInv
AtMostNPlus1 == sent <= n + 1
OnePauseBetweenSends == (phase \in {"decide", "done"} => slept = sent - 1) /\ (phase = "send" => slept = sent)
Goal == AtMostNPlus1 /\ OnePauseBetweenSends
=============================================================================
