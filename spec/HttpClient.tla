------------------------------ MODULE HttpClient ------------------------------
(***************************************************************************)
(* The HTTP client backends (pjrpc/client/backend/{requests,httpx,          *)
(* aiohttp}.py): POST the request document with the library's content type, *)
(* then  status gate (raise_for_status) -> notification? -> content-type    *)
(* gate -> hand the text to the generic client (decode, deserialise,        *)
(* relate).  The outcome is specified as a function of the server's reply   *)
(* that never mentions the backend: all backends are interchangeable, the   *)
(* synchronous and the asynchronous ones in particular (C11).               *)
(***************************************************************************)
EXTENDS Naturals, Sequences, TLC
VARIABLES scn,      \* [backend, req \in {"call","notification","batch"}, raise, status, ctype, body]
          pc, posted, outcome
vars == <<scn, pc, posted, outcome>>

AcceptedTypes == {"application/json", "application/json-rpc"}       \* RESPONSE_CONTENT_TYPES
InitWith(s) == scn = s /\ pc = "start" /\ posted = [n |-> 0, ctype |-> "na", body_ok |-> FALSE] /\ outcome = "none"
\* exactly one POST carrying the request document and the JSON content type
DoPost == /\ pc = "start" /\ posted' = [n |-> 1, ctype |-> "application/json", body_ok |-> TRUE] /\ pc' = "posted"
        /\ UNCHANGED <<scn, outcome>>
\* body "drop": the client has made one successful request before; now the server takes the request and closes the connection
\* without answering.  The failure reaches the caller - and the request is NOT put on the wire a second time by the backend.
Expected ==
    IF scn.body = "drop" THEN "conn_error"
    ELSE IF scn.raise /\ scn.status >= 400 THEN "http_error"
    ELSE IF scn.req = "notification" THEN "nothing"
    ELSE IF scn.body # "empty" /\ scn.ctype.base \notin AcceptedTypes THEN "deser"          \* unexpected response content type
    ELSE CASE scn.body = "empty"    -> "deser"                                               \* nothing to decode
           [] scn.body = "html"     -> "deser"
           [] scn.body = "result"   -> "value"
           [] scn.body = "error"    -> "rpc_error"
           [] scn.body = "wrong_id" -> "identity"
Receive == /\ pc = "posted" /\ outcome' = Expected /\ pc' = "done" /\ UNCHANGED <<scn, posted>>
Next == DoPost \/ Receive
Spec == [][Next]_vars
OnePost == pc = "done" => posted.n = 1 /\ posted.ctype = "application/json" /\ posted.body_ok
BackendIrrelevant == pc = "done" => outcome = Expected
=============================================================================
