INIT Init
NEXT Next
CONSTANTS
  MaxP = 3
  Deviations = {}
  KindSet <- AllKinds
  InputKinds <- BothInputs
  MaxPos = 4
INVARIANT NoBindNoRun
INVARIANT ArgsExact
INVARIANT CtxIsServers
INVARIANT ResultUnchanged
CHECK_DEADLOCK FALSE
