---- MODULE Disp_c12_quick ----
EXTENDS DispatcherMC
MyInit == InitC12Quick
====
