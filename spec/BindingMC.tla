------------------------------ MODULE BindingMC ------------------------------
EXTENDS Binding, Json
NoNext == FALSE /\ UNCHANGED vars
KeysToSeq(S) == [p1 |-> "p1" \in S, p2 |-> "p2" \in S, p3 |-> "p3" \in S, p4 |-> "p4" \in S, zz |-> "zz" \in S]
AllKinds == Kinds
DocKinds == {"PK", "KO"}
BothInputs == {"pos", "named"}
NamedOnly == {"named"}
EmitDoc == pc = "recv" => PrintT(<<"SCN", ToJson([doc |-> TRUE, sig |-> sig, ctx |-> ctx, flavour |-> flavour, route |-> route,
                                                  inp |-> [k |-> inp.k, n |-> inp.n, keys |-> KeysToSeq(inp.keys)]])>>)
EmitScn == pc = "recv" => PrintT(<<"SCN", ToJson([doc |-> FALSE, sig |-> sig, ctx |-> ctx, flavour |-> flavour, route |-> route,
                                                  inp |-> [k |-> inp.k, n |-> inp.n, keys |-> KeysToSeq(inp.keys)]])>>)
=============================================================================
