------------------------------- MODULE Client -------------------------------
(***************************************************************************)
(* How the client accepts a response (pjrpc/client/client.py _send,         *)
(* BaseAbstractClient._relate, BaseBatch._relate; v20.py Response /         *)
(* BatchResponse from_json, .result): the server is an adversary that may   *)
(* return any document.  Steps: Decode -> Deserialise -> Relate -> Deliver. *)
(***************************************************************************)
EXTENDS Naturals, Sequences, FiniteSets, TLC

CONSTANTS Deviations        \* names of known, unrepaired deviations switched on ({} = intended design)

VARIABLES mode,             \* "single" (send / call) | "batch" (batch.send / batch.call)
          strict,           \* client strict mode
          calls,            \* Seq of request ids ("notif" for notifications) in the order the calls were made
          doc,              \* what came back: [k, els]   k \in {"notjson","scalar","object","array"}; object: els = <<its members>>
          pc,               \* "recv" "decoded" "parsed" "related" "failed"
          fail,             \* "none" | "Deser" | "Identity"
          links,            \* links[j]: position in `calls` of the request linked to response j (0: not linked)
          tuple             \* what .result yields: Seq of response ids in delivery order
vars == <<mode, strict, calls, doc, pc, fail, links, tuple>>

\* a response element: [id, body \in {"result","error","both","neither"}]; ids are tags: "i1".."i4" (integers the client
\* generated), "s1".. (the same digits as a STRING), "i9" (nobody asked), "null"
\* "btrue" (the JSON boolean true) and "f1_0" (the float 1.0) are not ids at all - although Python compares both equal to 1
BadIds == {"btrue", "f1_0"}
ElemOk(e) == e.body \in {"result", "error"} /\ e.id \notin BadIds
NonNull(s) == {j \in DOMAIN s : s[j].id # "null"}
HasDupIds(s) == \E j, k \in NonNull(s) : j < k /\ s[j].id = s[k].id
CallPositions == {p \in DOMAIN calls : calls[p] # "notif"}

InitWith(m, st, cs, d) == /\ mode = m /\ strict = st /\ calls = cs /\ doc = d /\ pc = "recv" /\ fail = "none"
                       /\ links = <<>> /\ tuple = <<>>

\* json_loader
Decode == /\ pc = "recv"
          /\ IF doc.k = "notjson" THEN pc' = "failed" /\ fail' = "Deser" ELSE pc' = "decoded" /\ fail' = fail
          /\ UNCHANGED <<mode, strict, calls, doc, links, tuple>>
\* Response.from_json (a single call was sent) / BatchResponse.from_json (a batch was sent)
BatchLevelError == mode = "batch" /\ doc.k = "object" /\ doc.els[1].id = "null" /\ doc.els[1].body \in {"error", "both"}
Malformed == \/ doc.k = "scalar"
             \/ mode = "single" /\ (doc.k = "array" \/ (doc.k = "object" /\ ~ElemOk(doc.els[1])))
             \/ mode = "batch" /\ doc.k = "object" /\ ~BatchLevelError
             \/ mode = "batch" /\ doc.k = "array" /\ \E j \in DOMAIN doc.els : ~ElemOk(doc.els[j])
Deserialise ==
    /\ pc = "decoded"
    /\ IF Malformed THEN pc' = "failed" /\ fail' = "Deser"
       ELSE IF mode = "batch" /\ doc.k = "array" /\ HasDupIds(doc.els) THEN pc' = "failed" /\ fail' = "Identity"   \* duplicate ids
       ELSE pc' = "parsed" /\ fail' = fail
    /\ UNCHANGED <<mode, strict, calls, doc, links, tuple>>

\* position of the call with id x (0 if none)
PosOf(x) == IF \E p \in CallPositions : calls[p] = x THEN CHOOSE p \in CallPositions : calls[p] = x ELSE 0
Answered(p) == \E j \in DOMAIN doc.els : doc.els[j].id = calls[p]
Missing    == \E p \in CallPositions : ~Answered(p)
Unexpected == \E j \in NonNull(doc.els) : PosOf(doc.els[j].id) = 0
\* _relate
Relate ==
    /\ pc = "parsed"
    /\ IF BatchLevelError THEN pc' = "related" /\ fail' = fail /\ links' = <<>>       \* batch-level error: nothing to link
       ELSE IF mode = "single"
            THEN IF strict /\ doc.els[1].id # "null" /\ doc.els[1].id # calls[1]
                 THEN pc' = "failed" /\ fail' = "Identity" /\ links' = links
                 ELSE pc' = "related" /\ fail' = fail /\ links' = <<1>>
       ELSE IF strict /\ (Missing \/ Unexpected)
            THEN pc' = "failed" /\ fail' = "Identity" /\ links' = links
            ELSE pc' = "related" /\ fail' = fail /\ links' = [j \in DOMAIN doc.els |-> IF doc.els[j].id = "null" THEN 0 ELSE PosOf(doc.els[j].id)]
    /\ UNCHANGED <<mode, strict, calls, doc, tuple>>

\* the ids, in the order in which .result / indexing deliver the responses: the order the CALLS were made
CallOrder == LET ps == SelectSeq([p \in DOMAIN calls |-> p], LAMBDA p : calls[p] # "notif" /\ Answered(p))
             IN [k \in DOMAIN ps |-> calls[ps[k]]]
ArrayOrder == [j \in DOMAIN doc.els |-> doc.els[j].id]
\* The attribution claim is made for accepted strict responses; non-strict mode is an explicit don't-care region
\* (DESIGN 3.3): any order is admitted there.
Clean == strict /\ \A j \in DOMAIN doc.els : doc.els[j].id # "null"
\* strict mode with null-id elements in the array: position k is still the k-th answered call - the elements nobody asked for
\* (null ids) come after the answers
CallsFirst(t) == Len(t) >= Len(CallOrder) /\ SubSeq(t, 1, Len(CallOrder)) = CallOrder
\* Known deviation "ServerOrderResults": BatchResponse.result / indexing follow the server's array order
Deliver(t) == /\ pc = "related" /\ tuple = <<>> /\ mode = "batch" /\ doc.k = "array" /\ doc.els # <<>>
              /\ tuple' = t
              /\ Clean => (t = CallOrder \/ ("ServerOrderResults" \in Deviations /\ t = ArrayOrder))
              /\ strict => (CallsFirst(t) \/ ("ServerOrderResults" \in Deviations /\ t = ArrayOrder))
              /\ UNCHANGED <<mode, strict, calls, doc, pc, fail, links>>
Next == Decode \/ Deserialise \/ Relate \/ Deliver(CallOrder)
Spec == [][Next]_vars

(****************************** properties (C08) ****************************)
\* strict mode: a mismatching single response, a missing / unexpected / repeated response raise the identity error
StrictRejects == (strict /\ pc \in {"related", "failed"} /\ ~Malformed /\ doc.k # "notjson") =>
    /\ (mode = "single" /\ doc.els[1].id \notin {"null", calls[1]}) => fail = "Identity"
    /\ (mode = "batch" /\ doc.k = "array" /\ (HasDupIds(doc.els) \/ Missing \/ Unexpected)) => fail = "Identity"
MalformedIsDeser == pc \in {"related", "failed"} => ((doc.k = "notjson" \/ Malformed) <=> fail = "Deser")
\* every accepted response is linked to the request with the same id
RelatedLinked == pc = "related" =>
    \A j \in DOMAIN links : links[j] # 0 => (mode = "single" \/ calls[links[j]] = doc.els[j].id)
\* results by position / as a tuple follow the order of the calls
PositionalByRequestOrder == /\ (tuple # <<>> /\ Clean /\ "ServerOrderResults" \notin Deviations) => tuple = CallOrder
                            /\ (tuple # <<>> /\ strict /\ "ServerOrderResults" \notin Deviations) => CallsFirst(tuple)
=============================================================================
