---------------------------- MODULE RegistryTrace ----------------------------
(* Trace validation of registration histories replayed on real MethodRegistry objects and a dispatcher. *)
EXTENDS Registry, TraceBase
R4T == {"d", "r0", "ra", "rab"}
PfxT == [d |-> <<>>, r0 |-> <<>>, ra |-> <<"a">>, rab |-> <<"a", "b">>]
TraceInit == tid \in 1..NTraces /\ l = 1 /\ InitState
KeySet(r) == {[name |-> n, target |-> map'[r][n]] : n \in DOMAIN map'[r]}
\* one event per registration operation, logged after it returned: the key -> target table of every registry
TOp == /\ IsEvent("Op") /\ Do(E.op)
       /\ \A r \in Regs : {E.keys[r][k] : k \in DOMAIN E.keys[r]} = KeySet(r)
\* after the history: a request for method E.name was dispatched by a dispatcher owning registry "d"; E.reached = the function
\* that ran ("none": the reply was -32601)
TProbe == IsEvent("Probe") /\ E.reached = Lookup(E.name) /\ UNCHANGED vars
TraceNext == TOp \/ TProbe
TraceConstraint == NamesAreFormula /\ ViewsExposePublicOnly /\ Progress
=============================================================================
