---- MODULE Retry_c19_thorough ----
EXTENDS RetryMC
MyInit == InitC19(3)
====
