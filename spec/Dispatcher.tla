----------------------------- MODULE Dispatcher -----------------------------
(***************************************************************************)
(* Dispatcher.dispatch / AsyncDispatcher.dispatch (pjrpc/server/           *)
(* dispatcher.py) as a step machine shaped like the code:                   *)
(*   Load -> Classify -> SizeCheck -> for each element                      *)
(*     [MwEnter* -> Resolve (lookup+bind) -> Exec -> ErrHandler* -> Finish  *)
(*      -> MwExit*] -> Assemble -> Return                                   *)
(* plus a property layer in property vocabulary (C01 C02 C03 C11 C12).      *)
(* Requests / responses are the documents and messages of Wire.             *)
(***************************************************************************)
EXTENDS JsonValues, TLC

NA == "na"
W == INSTANCE Wire WITH ReqDocs <- {}, ErrDocs <- {}, RespDocs <- {}, BatchReqDocs <- {}, BatchRespDocs <- {},
                        Bases <- {}, ReqMsgs <- {}, ErrMsgs <- {}, RespMsgs <- {}, BatchReqMsgs <- {},
                        BatchRespMsgs <- {}, kind <- NA, base <- NA, msg <- NA, wire <- NA, pc <- NA,
                        out <- NA, wire2 <- NA

CONSTANTS Cfgs,       \* configurations: [kind, maxBatch, mws, eh, perr, exc, flavour]
          Texts       \* abstract request texts: [k, cls, doc, els]

VARIABLES cfg, text,
          pc,         \* "recv" "loaded" "classified" "running" "assembled" "done"
          elems,      \* Seq of per-element pipeline states
          cur,        \* element being handled (0: none)
          execLog,    \* Seq of [tag, args]: method executions, in order
          mwLog,      \* Seq of [dir, k, tag]
          ehLog,      \* Seq of [tag, key, idx, cin, cout]
          reply,      \* document-level reply decided before any handler ran (-32700 / -32600) or NoReply
          out         \* Nothing | [doc, codes]
vars == <<cfg, text, pc, elems, cur, execLog, mwLog, ehLog, reply, out>>

(****************************** vocabulary *********************************)
LimOf    == [n0 |-> 0, n1 |-> 1, n2 |-> 2, n3 |-> 3, n4 |-> 4]
Nothing  == [k |-> "nothing"]
NoReply  == [k |-> "none"]
NoErr    == [code |-> NA, message |-> NA, data |-> NA]
\* library-generated errors: the statement fixes their code; message (a string) and data are left open
LibErr(c)  == [code |-> c, message |-> "m_lib", data |-> "d_lib"]
ErrResp(id, e) == [k |-> "resp", id |-> id, body |-> "error", v |-> NA, err |-> e]
OkResp(id, v)  == [k |-> "resp", id |-> id, body |-> "result", v |-> v, err |-> NoErr]

\* what the registered methods do with the parameters (signatures: ok/perr/exc(a=None, b=None), one(a))
BindResult(m, p) ==
    IF m = "m_one" THEN (IF p \in {"a_1", "o_a"} THEN "r_one_a1" ELSE "nobind")
    ELSE CASE p = "none"             -> "r_none"
           [] p \in {"a_1", "o_a"}   -> "r_a1"
           [] p = "a_deep"           -> "r_deep"
           [] p = "a_deep64"         -> "r_deep64"
           [] OTHER                  -> "nobind"
Registered == {"m_ok", "m_one", "m_perr", "m_exc", "m_int"}
\* m_int is a method of a class based view whose constructor raises: the failure happens while the call is being bound, before
\* any method body runs - an internal error (-32603); only notifications address it in the corpora (nothing is answered)

\* middleware kinds
RewrittenReq(r) == [r EXCEPT !.params = "a_1"]
ShortResp(r) == IF r.id = "notif" THEN Nothing ELSE OkResp(r.id, "mw_short")
\* a middleware that answers everything itself, a notification too (with id null): what the chain returns is what is sent
ShortAllResp(r) == OkResp(IF r.id = "notif" THEN "null" ELSE r.id, "mw_short")
\* "drop": a middleware that answers nothing at all (UNSET) and does not call further - for calls as well as notifications
IsShort(k) == k \in {"short", "shortall", "drop"}
ShortOf(k, r) == IF k = "shortall" THEN ShortAllResp(r) ELSE IF k = "drop" THEN Nothing ELSE ShortResp(r)
RewriteResp(x) == IF x.k = "resp" /\ x.body = "result" THEN [x EXCEPT !.v = "mw_rewritten"] ELSE x

\* error handlers: cfg.eh = [gen |-> Seq(kind), by |-> [code -> Seq(kind)]], kind \in {"identity", "replace", "mutate"}
ReplacedErr == [code |-> "c_2001", message |-> "s_b", data |-> Absent]
\* "mutate": the handler edits the error object it was given in place (code, message) and returns that same object
ApplyEh(kind_, e) == IF kind_ = "replace" THEN ReplacedErr
                     ELSE IF kind_ = "mutate" THEN [e EXCEPT !.code = "c_2001", !.message = "s_b"] ELSE e
EhQueue(code) ==
    [i \in 1..Len(cfg.eh.gen) |-> [key |-> "None", idx |-> i, kind |-> cfg.eh.gen[i]]]
    \o (IF code \in DOMAIN cfg.eh.by
        THEN [i \in 1..Len(cfg.eh.by[code]) |-> [key |-> code, idx |-> i, kind |-> cfg.eh.by[code][i]]]
        ELSE <<>>)

NewElem(m, i) == [req |-> m, orig |-> m, tag |-> i, depth |-> 0, phase |-> "enter", res |-> NA,
                  raised |-> NoErr, err |-> NoErr, ehq |-> <<>>, resp |-> Nothing]

(******************************** actions **********************************)
Init == /\ cfg \in Cfgs /\ text \in Texts
        /\ pc = "recv" /\ elems = <<>> /\ cur = 0
        /\ execLog = <<>> /\ mwLog = <<>> /\ ehLog = <<>> /\ reply = NoReply /\ out = Nothing

InitWith(c, t) == /\ cfg = c /\ text = t
                  /\ pc = "recv" /\ elems = <<>> /\ cur = 0
                  /\ execLog = <<>> /\ mwLog = <<>> /\ ehLog = <<>> /\ reply = NoReply /\ out = Nothing

\* json_loader: not JSON -> -32700.  A 5000-digit integer literal is beyond CPython's int conversion
\* limit: the statement fixes no class for it, any well-formed error reply with id null is admissible
HugeCodes == {"c_m32700", "c_m32600", "c_m32603"}
Load == /\ pc = "recv"
        /\ \/ text.k = "notjson" /\ reply' = ErrResp("null", LibErr("c_m32700")) /\ pc' = "assembled"
           \/ text.k = "hugeint" /\ \E c \in HugeCodes : reply' = ErrResp("null", LibErr(c)) /\ pc' = "assembled"
           \/ text.k \in {"single", "batch", "value"} /\ reply' = reply /\ pc' = "loaded"
        /\ UNCHANGED <<cfg, text, elems, cur, execLog, mwLog, ehLog, out>>

\* from_json of the request / the batch: anything invalid rejects the whole document with -32600, id null
Classify ==
    /\ pc = "loaded"
    /\ LET v == IF text.k = "batch" THEN W!ParseBatchRequest([shape |-> "arr", els |-> text.els])
                ELSE W!ParseRequest(text.doc) IN
       IF v.v # "Ok"
       THEN reply' = ErrResp("null", LibErr("c_m32600")) /\ pc' = "assembled" /\ UNCHANGED elems
       ELSE /\ reply' = reply /\ pc' = "classified"
            /\ elems' = IF text.k = "batch" THEN [i \in DOMAIN v.m |-> NewElem(v.m[i], i)]
                        ELSE <<NewElem(v.m, 1)>>
    /\ UNCHANGED <<cfg, text, cur, execLog, mwLog, ehLog, out>>

\* max_batch_size.  0 is not defined by the statement: "no limit" or "reject" are both admissible
SizeCheck ==
    /\ pc = "classified"
    /\ LET tooLarge == text.k = "batch" /\ cfg.maxBatch \notin {"unset", "n0"} /\ Len(elems) > LimOf[cfg.maxBatch]
           mayReject == text.k = "batch" /\ cfg.maxBatch = "n0" IN
       \/ /\ tooLarge \/ mayReject
          /\ reply' = ErrResp("null", LibErr("c_m32600")) /\ pc' = "assembled" /\ cur' = cur
       \/ /\ ~tooLarge
          /\ reply' = reply /\ pc' = "running" /\ cur' = 1
    /\ UNCHANGED <<cfg, text, elems, execLog, mwLog, ehLog, out>>

Upd(i, e) == elems' = [elems EXCEPT ![i] = e]
Running(i) == pc = "running" /\ cur = i /\ i \in DOMAIN elems

\* element i enters its next middleware (declaration order, first declared outermost)
MwEnter(i) ==
    /\ Running(i) /\ elems[i].phase = "enter" /\ elems[i].depth < Len(cfg.mws)
    /\ LET e == elems[i]  k == e.depth + 1  mk == cfg.mws[k] IN
       /\ mwLog' = Append(mwLog, [dir |-> "enter", k |-> k, tag |-> e.tag, params |-> e.req.params])
       /\ Upd(i, CASE IsShort(mk)       -> [e EXCEPT !.depth = k, !.phase = "exit", !.resp = ShortOf(mk, e.req)]
                   [] mk = "rewriteReq" -> [e EXCEPT !.depth = k, !.req = RewrittenReq(e.req)]
                   [] OTHER             -> [e EXCEPT !.depth = k])
    /\ UNCHANGED <<cfg, text, pc, cur, execLog, ehLog, reply, out>>

Fail(e, err) == [e EXCEPT !.phase = "failed", !.raised = err, !.err = err, !.ehq = EhQueue(err.code)]

\* registry lookup and parameter binding (no event: nothing observable happens)
Resolve(i) ==
    /\ Running(i) /\ elems[i].phase = "enter" /\ elems[i].depth = Len(cfg.mws)
    /\ LET e == elems[i] IN
       Upd(i, IF e.req.method \notin Registered THEN Fail(e, LibErr("c_m32601"))
              ELSE IF e.req.method = "m_int" THEN Fail(e, LibErr("c_m32603"))
              ELSE IF BindResult(e.req.method, e.req.params) = "nobind" THEN Fail(e, LibErr("c_m32602"))
              ELSE [e EXCEPT !.phase = "ready"])
    /\ UNCHANGED <<cfg, text, pc, cur, execLog, mwLog, ehLog, reply, out>>

\* the method body runs
Exec(i) ==
    /\ Running(i) /\ elems[i].phase = "ready"
    /\ LET e == elems[i]  args == BindResult(e.req.method, e.req.params) IN
       /\ execLog' = Append(execLog, [tag |-> e.tag, method |-> e.req.method, args |-> args])
       /\ Upd(i, CASE e.req.method = "m_perr" -> Fail(e, cfg.perr)                   \* verbatim
                   [] e.req.method = "m_exc"  -> Fail(e, LibErr("c_m32000"))         \* any other exception
                   [] OTHER -> [e EXCEPT !.phase = "succeeded", !.res = args])
    /\ UNCHANGED <<cfg, text, pc, cur, mwLog, ehLog, reply, out>>

\* next error handler: generic ones, then those registered for the RAISED code, each fed the previous output
ErrHandler(i) ==
    /\ Running(i) /\ elems[i].phase = "failed" /\ elems[i].ehq # <<>>
    /\ LET e == elems[i]  hd == Head(e.ehq)  newErr == ApplyEh(hd.kind, e.err) IN
       /\ ehLog' = Append(ehLog, [tag |-> e.tag, key |-> hd.key, idx |-> hd.idx, cin |-> e.err.code, cout |-> newErr.code])
       /\ Upd(i, [e EXCEPT !.err = newErr, !.ehq = Tail(e.ehq)])
    /\ UNCHANGED <<cfg, text, pc, cur, execLog, mwLog, reply, out>>

\* the innermost handler returns: a response for a call, nothing for a notification
Finish(i) ==
    /\ Running(i) /\ (elems[i].phase = "succeeded" \/ (elems[i].phase = "failed" /\ elems[i].ehq = <<>>))
    /\ LET e == elems[i] IN
       Upd(i, [e EXCEPT !.phase = "exit",
                        !.resp = IF e.req.id = "notif" THEN Nothing
                                 ELSE IF e.phase = "succeeded" THEN OkResp(e.req.id, e.res)
                                 ELSE ErrResp(e.req.id, e.err)])
    /\ UNCHANGED <<cfg, text, pc, cur, execLog, mwLog, ehLog, reply, out>>

\* middlewares return in reverse order
MwExit(i) ==
    /\ Running(i) /\ elems[i].phase = "exit" /\ elems[i].depth > 0
    /\ LET e == elems[i]  k == e.depth
           r == IF cfg.mws[k] = "rewriteResp" THEN RewriteResp(e.resp) ELSE e.resp IN
       /\ mwLog' = Append(mwLog, [dir |-> "exit", k |-> k, tag |-> e.tag, params |-> NA])
       /\ Upd(i, [e EXCEPT !.depth = k - 1, !.resp = r])
    /\ UNCHANGED <<cfg, text, pc, cur, execLog, ehLog, reply, out>>

ElemDone(i) ==
    /\ Running(i) /\ elems[i].phase = "exit" /\ elems[i].depth = 0
    /\ Upd(i, [elems[i] EXCEPT !.phase = "done"])
    /\ IF i < Len(elems) THEN cur' = i + 1 /\ pc' = pc ELSE cur' = 0 /\ pc' = "assembled"
    /\ UNCHANGED <<cfg, text, execLog, mwLog, ehLog, reply, out>>

Answers == SelectSeq([i \in DOMAIN elems |-> elems[i].resp], LAMBDA r : r.k = "resp")
CodeOf(r) == IF r.body = "error" THEN r.err.code ELSE "i0"

\* response document + error codes, or nothing at all
Return ==
    /\ pc = "assembled"
    /\ out' = IF reply # NoReply THEN [k |-> "single", doc |-> <<reply>>, codes |-> <<CodeOf(reply)>>]
              ELSE IF text.k = "batch"
                   THEN IF Answers = <<>> THEN Nothing
                        ELSE [k |-> "batch", doc |-> Answers, codes |-> [j \in DOMAIN Answers |-> CodeOf(Answers[j])]]
                   ELSE IF Answers = <<>> THEN Nothing
                        ELSE [k |-> "single", doc |-> Answers, codes |-> <<CodeOf(Answers[1])>>]
    /\ pc' = "done"
    /\ UNCHANGED <<cfg, text, elems, cur, execLog, mwLog, ehLog, reply>>

ElemStep(i) == MwEnter(i) \/ Resolve(i) \/ Exec(i) \/ ErrHandler(i) \/ Finish(i) \/ MwExit(i) \/ ElemDone(i)
Next == Load \/ Classify \/ SizeCheck \/ (\E i \in DOMAIN elems : ElemStep(i)) \/ Return
Spec == Init /\ [][Next]_vars

(***************************************************************************)
(* Property layer.  Written against the INPUT (text, cfg) and the           *)
(* observables (out, execLog, mwLog, ehLog) only - not against pc/elems.    *)
(***************************************************************************)
Done == pc = "done"
Docs == IF out = Nothing THEN <<>> ELSE out.doc

\* ---- what the document is, judged from the text alone (Appendix A)
IsBatchText == text.k = "batch"
TextVerdict == CASE text.k = "notjson" -> "notjson"
                 [] text.k = "hugeint" -> "hugeint"
                 [] text.k = "batch"   -> W!ParseBatchRequest([shape |-> "arr", els |-> text.els]).v
                 [] OTHER              -> W!ParseRequest(text.doc).v
InputMsgs == IF TextVerdict # "Ok" THEN <<>>
             ELSE IF IsBatchText THEN W!ParseBatchRequest([shape |-> "arr", els |-> text.els]).m
             ELSE <<W!ParseRequest(text.doc).m>>
OverLimit == IsBatchText /\ cfg.maxBatch \notin {"unset", "n0"} /\ Len(text.els) > LimOf[cfg.maxBatch]
ZeroLimit == IsBatchText /\ cfg.maxBatch = "n0"
Accepted  == TextVerdict = "Ok" /\ ~OverLimit /\ ~(ZeroLimit /\ reply # NoReply)

\* ---- C01
IsIdTag(t) == t = "null" \/ t \in IdTags \/ t \in W!CodeTags
WellFormedResp(r) == /\ r.k = "resp" /\ IsIdTag(r.id) /\ r.body \in {"result", "error"}
                     /\ (r.body = "error" => (r.err.code \in W!IntLike /\ (r.err.message \in StrTags \/ r.err.message = "m_lib")))
WellFormed == Done /\ out # Nothing =>
                 /\ Len(out.doc) >= 1                                    \* never an empty array
                 /\ (out.k = "single" => Len(out.doc) = 1)
                 /\ \A j \in DOMAIN out.doc : WellFormedResp(out.doc[j])
CodesAgree == Done /\ out # Nothing =>
                 /\ Len(out.codes) = Len(out.doc)
                 /\ \A j \in DOMAIN out.doc : out.codes[j] = (IF out.doc[j].body = "error" THEN out.doc[j].err.code ELSE "i0")

\* ---- expected outcome of ONE request message sent alone, as a function (property vocabulary)
RECURSIVE FoldEh(_, _)
FoldEh(q, e) == IF q = <<>> THEN e ELSE FoldEh(Tail(q), ApplyEh(Head(q).kind, e))
FirstShort == IF \E k \in DOMAIN cfg.mws : IsShort(cfg.mws[k])
              THEN CHOOSE k \in DOMAIN cfg.mws : IsShort(cfg.mws[k]) /\ \A j \in 1..(k-1) : ~IsShort(cfg.mws[j])
              ELSE 0
Layers == IF FirstShort = 0 THEN Len(cfg.mws) ELSE FirstShort     \* middlewares that are entered
SeenReq(m, k) == IF \E j \in 1..(k-1) : cfg.mws[j] = "rewriteReq" THEN RewrittenReq(m) ELSE m   \* request seen by layer k
CoreReq(m) == SeenReq(m, Len(cfg.mws) + 1)
RaisedBy(m) == LET r == CoreReq(m) IN
               IF r.method \notin Registered THEN LibErr("c_m32601")
               ELSE IF r.method = "m_int" THEN LibErr("c_m32603")
               ELSE IF BindResult(r.method, r.params) = "nobind" THEN LibErr("c_m32602")
               ELSE IF r.method = "m_perr" THEN cfg.perr
               ELSE IF r.method = "m_exc" THEN LibErr("c_m32000")
               ELSE NoErr
Executes(m) == FirstShort = 0 /\ CoreReq(m).method \in Registered \ {"m_int"}
               /\ BindResult(CoreReq(m).method, CoreReq(m).params) # "nobind"
InnerResp(m) == IF FirstShort # 0 THEN ShortOf(cfg.mws[FirstShort], SeenReq(m, FirstShort))
                ELSE IF m.id = "notif" THEN Nothing
                ELSE IF RaisedBy(m) = NoErr THEN OkResp(m.id, BindResult(CoreReq(m).method, CoreReq(m).params))
                ELSE ErrResp(m.id, FoldEh(EhQueue(RaisedBy(m).code), RaisedBy(m)))
RespRewrites == Cardinality({k \in 1..(IF FirstShort = 0 THEN Len(cfg.mws) ELSE FirstShort - 1) : cfg.mws[k] = "rewriteResp"})
SingleOutcome(m) == IF RespRewrites > 0 THEN RewriteResp(InnerResp(m)) ELSE InnerResp(m)

\* ---- C02
ExpectedAnswers == SelectSeq([i \in DOMAIN InputMsgs |-> SingleOutcome(InputMsgs[i])], LAMBDA r : r.k = "resp")
BatchIsMap == Done /\ Accepted => Docs = ExpectedAnswers          \* and nothing at all if that is empty
AnswerPerCall == Done /\ Accepted /\ cfg.mws = <<>> =>
                    /\ Len(Docs) = Cardinality({i \in DOMAIN InputMsgs : InputMsgs[i].id # "notif"})
                    /\ \A i \in DOMAIN InputMsgs : InputMsgs[i].id # "notif" =>
                          \E j \in DOMAIN Docs : Docs[j].id = InputMsgs[i].id
NothingForNotifications == Done /\ Accepted /\ (\A i \in DOMAIN InputMsgs : InputMsgs[i].id = "notif") /\ FirstShort = 0
                              => out = Nothing
RejectedExecutesNothing == ~(TextVerdict = "Ok" /\ ~OverLimit) => (execLog = <<>> /\ mwLog = <<>> /\ ehLog = <<>>)
ExpectedExecs == LET idx == SelectSeq([i \in DOMAIN InputMsgs |-> i], LAMBDA i : Executes(InputMsgs[i])) IN
                 [j \in DOMAIN idx |-> [tag |-> idx[j], method |-> CoreReq(InputMsgs[idx[j]]).method,
                                        args |-> BindResult(CoreReq(InputMsgs[idx[j]]).method, CoreReq(InputMsgs[idx[j]]).params)]]
ExactlyOnce == Done /\ Accepted => execLog = ExpectedExecs
NoSpuriousExec == \A j \in DOMAIN execLog : \E i \in DOMAIN InputMsgs : execLog[j].tag = i /\ Executes(InputMsgs[i])

\* ---- C03
RejectionCodes == Done /\ ~Accepted /\ ~(ZeroLimit /\ TextVerdict = "Ok") =>
                     /\ out # Nothing /\ out.k = "single" /\ out.doc[1].id = "null" /\ out.doc[1].body = "error"
                     /\ out.doc[1].err.code = (CASE TextVerdict = "notjson" -> "c_m32700"
                                                 [] TextVerdict = "hugeint" -> out.doc[1].err.code
                                                 [] OTHER -> "c_m32600")
                     /\ (TextVerdict = "hugeint" => out.doc[1].err.code \in HugeCodes)
NoHandlers == cfg.eh.gen = <<>> /\ \A c \in DOMAIN cfg.eh.by : cfg.eh.by[c] = <<>>
CodeMapping == Done /\ Accepted /\ cfg.mws = <<>> /\ NoHandlers =>
    \A i \in DOMAIN InputMsgs : LET m == InputMsgs[i] IN m.id # "notif" =>
        \E j \in DOMAIN Docs : /\ Docs[j].id = m.id
            /\ (m.method \notin Registered => Docs[j].body = "error" /\ Docs[j].err.code = "c_m32601")
            /\ (m.method \in Registered /\ BindResult(m.method, m.params) = "nobind"
                    => Docs[j].body = "error" /\ Docs[j].err.code = "c_m32602")
            /\ (m.method = "m_perr" /\ BindResult(m.method, m.params) # "nobind"
                    => Docs[j].body = "error" /\ Docs[j].err = cfg.perr)          \* verbatim: code, message, data
            /\ (m.method = "m_exc" /\ BindResult(m.method, m.params) # "nobind"
                    => Docs[j].body = "error" /\ Docs[j].err.code = "c_m32000")
            /\ (m.method \in {"m_ok", "m_one"} /\ BindResult(m.method, m.params) # "nobind"
                    => Docs[j].body = "result" /\ Docs[j].v = BindResult(m.method, m.params))

\* ---- C12
MwEnters(t) == SelectSeq(mwLog, LAMBDA x : x.tag = t /\ x.dir = "enter")
MwExits(t)  == SelectSeq(mwLog, LAMBDA x : x.tag = t /\ x.dir = "exit")
MwOncePerElement == Done /\ Accepted => \A i \in DOMAIN InputMsgs :
    /\ [j \in DOMAIN MwEnters(i) |-> MwEnters(i)[j].k] = [j \in 1..Layers |-> j]                   \* declaration order
    /\ [j \in DOMAIN MwExits(i) |-> MwExits(i)[j].k] = [j \in 1..Layers |-> Layers + 1 - j]       \* reverse
    /\ \A j \in DOMAIN MwEnters(i) : MwEnters(i)[j].params = SeenReq(InputMsgs[i], j).params      \* inner layers see the rewritten request
EhFor(t) == SelectSeq(ehLog, LAMBDA x : x.tag = t)
EhOrder == Done /\ Accepted => \A i \in DOMAIN InputMsgs : LET m == InputMsgs[i]  q == EhQueue(RaisedBy(m).code) IN
    IF FirstShort # 0 \/ RaisedBy(m) = NoErr THEN EhFor(i) = <<>>                                 \* never on success
    ELSE /\ Len(EhFor(i)) = Len(q)
         /\ \A j \in DOMAIN q : /\ EhFor(i)[j].key = q[j].key /\ EhFor(i)[j].idx = q[j].idx
                                /\ EhFor(i)[j].cin = (IF j = 1 THEN RaisedBy(m).code ELSE EhFor(i)[j-1].cout)
EhOnlyOnFailure == (\A j \in DOMAIN ehLog : \E i \in DOMAIN InputMsgs : ehLog[j].tag = i /\ RaisedBy(InputMsgs[i]) # NoErr)

\* ---- C11: nothing observable depends on the dispatcher kind / method flavour (Expected* never mention them)
KindIrrelevant == Done /\ Accepted => /\ Docs = ExpectedAnswers /\ execLog = ExpectedExecs

TypeOK == pc \in {"recv", "loaded", "classified", "running", "assembled", "done"}
=============================================================================
