SPECIFICATION Spec
CONSTANTS
  Endpoints <- E2
  Methods <- M2
  MaxOps = 4
  Ops <- OpsSmall
CONSTRAINT Bound
INVARIANT TypeOK
INVARIANT CallInvariant
INVARIANT UnpatchedEndpoint
PROPERTY FailedOpsAtomic
PROPERTY OnceUsedOnce
CHECK_DEADLOCK FALSE
