----------------------------- MODULE BatchIdsMC -----------------------------
EXTENDS BatchIds, Json
IdsQuick == {"none", "i0", "i1", "s_1"}
IdsFull  == {"none", "i0", "i1", "s_1", "s_empty"}
EmitScn == (Bound /\ hist # <<>> /\ (Len(hist) = MaxOps \/ SumIds(hist) >= MaxIds - 1)) =>
             PrintT(<<"SCN", ToJson([kind |-> kind, strict |-> strict, hist |-> hist])>>)
=============================================================================
