--------------------------- MODULE SpecEndpointTrace ---------------------------
EXTENDS SpecEndpoint, TraceBase
TraceInit == tid \in 1..NTraces /\ l = 1 /\ InitWith(Traces[tid].scn.scn)
\* one event per GET of the specification URL: status, content-type class, the method keys of the document (endpoint path
\* relative to the base + "#" + name for OpenAPI, names for OpenRPC) and whether the document equals a direct schema() call
TGet == /\ IsEvent("Get") /\ Get
        /\ E.status = 200 /\ E.ctype = "json" /\ {E.keys[k] : k \in DOMAIN E.keys} = Keys /\ Len(E.keys) = Cardinality(Keys)
        /\ E.same_as_direct = TRUE
\* generate_spec() called directly before the additional endpoint was added (endpoints = "main+late")
TEarly == /\ IsEvent("Early") /\ scn.endpoints = "main+late" /\ gets = <<>>
          /\ {E.keys[k] : k \in DOMAIN E.keys} = EarlyKeys /\ Len(E.keys) = Cardinality(EarlyKeys) /\ UNCHANGED vars
\* GET of the UI index page (which: "slash" = <ui path>/, "index" = <ui path>/index.html)
TUi == /\ IsEvent("Ui") /\ HasUi /\ E.which \in {"slash", "index"}
       /\ [status |-> E.status, ctype |-> E.ctype, points_at_spec |-> E.points_at_spec] = ExpectedUi /\ UNCHANGED vars
TraceNext == TGet \/ TEarly \/ TUi
TraceConstraint == Stable /\ Complete /\ Progress
=============================================================================
