----------------------------- MODULE HttpGateMC -----------------------------
EXTENDS HttpGate, Json
NoNext == FALSE /\ UNCHANGED vars
EmitScn == pc = "recv" => PrintT(<<"SCN", ToJson([req |-> req])>>)
Integs == {"aiohttp", "flask", "werkzeug"}
Medias == {[base |-> b, variant |-> v] : b \in Documented, v \in {"plain", "charset", "upper", "charset_upper", "spaces", "charset_ascii", "charset_latin1", "charset_unknown"}}
          \cup {[base |-> b, variant |-> "plain"] : b \in {"application/jsonx", "application/json-rpc2", "text/json", "text/plain",
                                                        "application/vnd.api+json", "application/x-www-form-urlencoded", "missing", "json", "application/jsonrequests"}}
          \cup {[base |-> "text/plain", variant |-> "charset"]}
Bodies == {"call_ok", "call_err", "notif", "batch_ok", "batch_mixed", "batch_notif", "unknown", "badparams", "invalid", "notjson", "non_utf8"}
\* a third endpoint ("zzz": in aiohttp it is served by a sub-application of its own) over a reduced media alphabet
MediasSmall == {[base |-> "application/json", variant |-> "plain"], [base |-> "application/json-rpc", variant |-> "charset"],
                [base |-> "text/plain", variant |-> "plain"], [base |-> "missing", variant |-> "plain"], [base |-> "application/jsonx", variant |-> "plain"]}
Init == \/ \E i \in Integs, m \in Medias, b \in Bodies, f \in {"default", "custom"}, p \in {"none", "api"} :
            InitWith([integ |-> i, media |-> m, body |-> b, statusfn |-> f, prefix |-> p])
        \/ \E i \in Integs, m \in MediasSmall, b \in Bodies, f \in {"default", "custom"} :
            InitWith([integ |-> i, media |-> m, body |-> b, statusfn |-> f, prefix |-> "zzz"])
=============================================================================
