INIT InitQuick
CHECK_DEADLOCK FALSE
NEXT NoNext
INVARIANT EmitScn
