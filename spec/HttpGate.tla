------------------------------ MODULE HttpGate ------------------------------
(***************************************************************************)
(* The HTTP integrations (pjrpc/server/integration/{aiohttp,flask,          *)
(* werkzeug}.py): media-type gate -> dispatcher -> HTTP reply.  The reply   *)
(* is specified as a function of the request that never mentions the        *)
(* integration (werkzeug has no status function: the constant 200).         *)
(***************************************************************************)
EXTENDS Naturals, Sequences, TLC

VARIABLES req,      \* [integ, media, body, statusfn, prefix]
          pc,       \* "recv" "refused" "dispatched" "replied"
          execs,    \* number of method executions caused
          reply     \* [status, ctype, body]
vars == <<req, pc, execs, reply>>

\* media type classes: [base, variant]; base: one of the documented types or something else
Documented == {"application/json", "application/json-rpc", "application/jsonrequest"}
Acceptable(m) == m.base \in Documented        \* parameters (charset) and letter case do not matter

\* body classes and what the dispatcher makes of them: [doc, codes, execs]
Verdict(b) == CASE b = "call_ok"     -> [doc |-> "result",   codes |-> "zero",  execs |-> 1]
                [] b = "call_err"    -> [doc |-> "error",    codes |-> "error", execs |-> 1]
                [] b = "notif"       -> [doc |-> "nothing",  codes |-> "none",  execs |-> 1]
                [] b = "batch_ok"    -> [doc |-> "array",    codes |-> "zero",  execs |-> 2]
                [] b = "batch_mixed" -> [doc |-> "array",    codes |-> "error", execs |-> 2]
                [] b = "batch_notif" -> [doc |-> "nothing",  codes |-> "none",  execs |-> 2]
                [] b = "unknown"     -> [doc |-> "error",    codes |-> "error", execs |-> 0]
                [] b = "badparams"   -> [doc |-> "error",    codes |-> "error", execs |-> 0]   \* the parameters do not bind: -32602
                [] b = "invalid"     -> [doc |-> "error",    codes |-> "error", execs |-> 0]
                [] b = "notjson"     -> [doc |-> "error",    codes |-> "error", execs |-> 0]
                [] b = "non_utf8"    -> [doc |-> "dontcare", codes |-> "error", execs |-> 0]
\* the custom status function looks at the whole tuple of codes (how many there are, whether any is an error):
\* one code: 201 / 422; several codes (a batch): 202 / 207
StatusOf(fn, integ, v) == IF fn = "default" \/ integ = "werkzeug" THEN 200
                          ELSE IF v.doc = "array" THEN (IF v.codes = "zero" THEN 202 ELSE 207)
                          ELSE IF v.codes = "zero" THEN 201 ELSE 422

InitWith(r) == req = r /\ pc = "recv" /\ execs = 0 /\ reply = [status |-> 0, ctype |-> "na", body |-> "na"]

\* the gate: any other media type is refused with 415 and nothing runs
Refuse == /\ pc = "recv" /\ ~Acceptable(req.media)
          /\ reply' = [status |-> 415, ctype |-> "any", body |-> "any"] /\ pc' = "replied"
          /\ UNCHANGED <<req, execs>>
Dispatch == /\ pc = "recv" /\ Acceptable(req.media)
            /\ execs' = Verdict(req.body).execs /\ pc' = "dispatched" /\ UNCHANGED <<req, reply>>
\* exactly the dispatcher's document, the JSON content type, the status chosen by the status function; nothing -> 200, empty
Reply == /\ pc = "dispatched"
         /\ LET v == Verdict(req.body) IN
            reply' = IF v.doc = "nothing" THEN [status |-> 200, ctype |-> "any", body |-> "empty"]
                     ELSE [status |-> StatusOf(req.statusfn, req.integ, v), ctype |-> "json", body |-> "same"]
         /\ pc' = "replied" /\ UNCHANGED <<req, execs>>
\* a body that is not UTF-8: the statement leaves it open (400, or the -32700 document) - but nothing may run
ReplyUndecodable == /\ pc = "dispatched" /\ req.body = "non_utf8"
                    /\ \/ reply' = [status |-> 400, ctype |-> "any", body |-> "any"]
                       \/ reply' = [status |-> StatusOf(req.statusfn, req.integ, Verdict("notjson")), ctype |-> "json", body |-> "parse_error"]
                    /\ pc' = "replied" /\ UNCHANGED <<req, execs>>
\* a documented media type whose charset parameter names NO known encoding: the statement does not say what a malformed
\* parameter means - the request is dispatched (the body read as UTF-8, flask / werkzeug) or refused with 400 and nothing runs
\* (aiohttp) - never a server error
UnknownCharset == Acceptable(req.media) /\ req.media.variant = "charset_unknown"
RefuseCharset == /\ pc = "recv" /\ UnknownCharset
                 /\ reply' = [status |-> 400, ctype |-> "any", body |-> "any"] /\ pc' = "replied"
                 /\ UNCHANGED <<req, execs>>
Next == Refuse \/ RefuseCharset \/ Dispatch \/ (req.body # "non_utf8" /\ Reply) \/ ReplyUndecodable
Spec == [][Next]_vars

(******************************* properties *********************************)
RefuseExecutesNothing == (pc = "replied" /\ ~Acceptable(req.media)) => (reply.status = 415 /\ execs = 0)
RelayExact == (pc = "replied" /\ Acceptable(req.media) /\ req.body # "non_utf8" /\ ~(UnknownCharset /\ reply.status = 400)) =>
                 IF Verdict(req.body).doc = "nothing" THEN reply.status = 200 /\ reply.body = "empty"
                 ELSE reply.body = "same" /\ reply.ctype = "json" /\ reply.status = StatusOf(req.statusfn, req.integ, Verdict(req.body))
ExecsAsDispatcher == pc = "replied" => execs = (IF Acceptable(req.media) /\ ~(UnknownCharset /\ reply.status = 400) THEN Verdict(req.body).execs ELSE 0)
UnknownCharsetNeverFails == (pc = "replied" /\ UnknownCharset) => reply.status < 500
=============================================================================
