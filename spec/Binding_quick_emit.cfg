INIT Init
CONSTANTS
  MaxP = 3
  Deviations = {}
  MaxPos = 4
CHECK_DEADLOCK FALSE
NEXT NoNext
INVARIANT EmitScn
