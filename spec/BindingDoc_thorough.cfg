INIT Init
CONSTANTS
  MaxP = 4
  Deviations = {}
  KindSet <- DocKinds
  InputKinds <- NamedOnly
  MaxPos = 0
CHECK_DEADLOCK FALSE
NEXT Next
INVARIANT DocumentedIsAccepted
INVARIANT NoBindNoRun
INVARIANT ArgsExact
INVARIANT CtxIsServers
