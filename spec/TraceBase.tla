------------------------------ MODULE TraceBase ------------------------------
(***************************************************************************)
(* Shared plumbing of every trace specification.  One JSON file holds many *)
(* recorded executions [scn |-> ..., ev |-> <<event, ...>>]; `tid` picks   *)
(* one in the initial state, `l` is the next event to consume.  Register   *)
(* `tid` (TLCSet/TLCGet, -workers 1) remembers the highest `l` reached; a  *)
(* trace is accepted iff all its events were consumed.  Rejected traces    *)
(* are printed by the POSTCONDITION as <<"REJ", tid, reached>>.            *)
(***************************************************************************)
EXTENDS Naturals, Sequences, TLC, Json, IOUtils
VARIABLES tid, l

Traces == JsonDeserialize(IOEnv.TRACE_FILE)
NTraces == Len(Traces)
Ev  == Traces[tid].ev
Scn == Traces[tid].scn
E   == Ev[l]

ASSUME RegistersInitialised == \A t \in 1..NTraces : TLCSet(t, 0)

IsEvent(e) == l <= Len(Ev) /\ Ev[l].ev = e /\ l' = l + 1 /\ UNCHANGED tid
Silent     == UNCHANGED <<tid, l>>
Progress   == TLCSet(tid, IF TLCGet(tid) < l THEN l ELSE TLCGet(tid))
Post == /\ \A t \in 1..NTraces : \/ TLCGet(t) = Len(Traces[t].ev) + 1
                                 \/ PrintT(<<"REJ", t, TLCGet(t)>>)
        /\ PrintT(<<"VALIDATED", NTraces>>)
EmptySet == {}
=============================================================================
