---- MODULE Disp_c03 ----
EXTENDS DispatcherMC
MyInit == InitC03
====
