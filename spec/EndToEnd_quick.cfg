INIT InitQuick
NEXT Next
CONSTANTS
  Deviations = {}
INVARIANT OneWellFormedDocPerCall
INVARIANT ValueIsDirectCall
INVARIANT ErrorIsTypedAndVerbatim
INVARIANT NotificationsReturnNothingRunOnce
INVARIANT NotationsInterchangeable
CHECK_DEADLOCK FALSE
