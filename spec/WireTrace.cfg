INIT TraceInit
NEXT TraceNext
CONSTRAINT TraceConstraint
POSTCONDITION Post
CHECK_DEADLOCK FALSE
CONSTANTS
  ReqDocs <- EmptySet
  ErrDocs <- EmptySet
  RespDocs <- EmptySet
  BatchReqDocs <- EmptySet
  BatchRespDocs <- EmptySet
  Bases <- EmptySet
  ReqMsgs <- EmptySet
  ErrMsgs <- EmptySet
  RespMsgs <- EmptySet
  BatchReqMsgs <- EmptySet
  BatchRespMsgs <- EmptySet
