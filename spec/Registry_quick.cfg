INIT InitState
NEXT Next
CONSTANTS
  Regs <- R4
  PrefixOf <- Pfx
  MaxOps = 4
  Ops <- OpsSmall
CONSTRAINT Bound
INVARIANT NamesAreFormula
INVARIANT ViewsExposePublicOnly
CHECK_DEADLOCK FALSE
