SPECIFICATION FairSpec
CONSTANTS
  ElemTypes <- TypesQuick
  N = 3
CHECK_DEADLOCK FALSE
PROPERTY Termination
