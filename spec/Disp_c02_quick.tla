---- MODULE Disp_c02_quick ----
EXTENDS DispatcherMC
MyInit == InitC02Quick
====
