---------------------------- MODULE AmqpRpcTrace ----------------------------
(* Trace validation of the real aio_pika (asynchronous, several calls in flight) and kombu (synchronous, one call at a time)
   client backends and server integrations run over an in-memory broker whose deliveries follow a schedule TLC generated
   (AmqpRpc).  `pending` (the size of the client's table of futures) is reported by the aio_pika driver only. *)
EXTENDS AmqpRpc, TraceBase
TraceInit == tid \in 1..NTraces /\ l = 1 /\ InitWith(Traces[tid].scn.cfg)
\* the call task ran up to its first suspension: what it put on the request queue
TStart   == /\ IsEvent("Start") /\ E.i \in Idx /\ Start(E.i)
            /\ E.reply_to = (IF IsCall(E.i) THEN (IF cfg.mode = "shared" THEN "results" ELSE "own") ELSE "none")
            /\ E.has_cid = IsCall(E.i) /\ E.ctype_ok = TRUE /\ ("pending" \in DOMAIN E => E.pending = Cardinality(futures'))
\* the server handled the head of the request queue
TServe   == /\ IsEvent("Serve") /\ Serve
            /\ LET m == Head(reqQ) IN
               CASE m.foreign = "garbage" -> E.executed = FALSE /\ E.acks = 0 /\ E.published = FALSE      \* nothing ran, nothing was acknowledged
                 [] m.foreign = "noreply" -> /\ E.call = 0 /\ E.executed = TRUE /\ E.acks = 1 /\ E.published = TRUE
                                             /\ E.same_cid = TRUE /\ E.to_nowhere = TRUE /\ E.ctype_ok = TRUE
                 [] OTHER -> /\ E.call = m.call /\ E.executed = TRUE /\ E.acks = 1
                             /\ E.published = IsCall(m.call)
                             /\ (E.published => (E.same_cid = TRUE /\ E.to_reply_queue = TRUE /\ E.ctype_ok = TRUE))
\* another producer put a request on the request queue
TForeign == IsEvent("Foreign") /\ Foreign(E.k)
\* the broker delivered the head of a reply queue to the client's result consumer
TDeliver == /\ IsEvent("Deliver") /\ E.q \in Queues /\ DeliverReply(E.q) /\ ("pending" \in DOMAIN E => E.pending = Cardinality(futures'))
TStray   == IsEvent("Stray") /\ Stray(E.q, E.cid, E.ctype)
TClose   == IsEvent("Close") /\ Close /\ E.pending = 0
\* a call task finished: checked against the state the model is in
TOutcome == /\ IsEvent("Outcome") /\ E.i \in Idx /\ cst[E.i] = (IF E.k = "raise" THEN "raised" ELSE "returned")
            /\ (IsCall(E.i) => outcome[E.i] = [k |-> E.k, of |-> E.of])
            /\ (~IsCall(E.i) => (E.k = "nothing" /\ outcome[E.i] = "none"))
            /\ UNCHANGED vars
\* end of the run: who is still waiting, what the client still remembers
TEnd     == /\ IsEvent("End") /\ E.waiting = Cardinality({i \in Idx : cst[i] = "waiting"})
            /\ ("pending" \in DOMAIN E => E.pending = Cardinality(futures))
            /\ UNCHANGED vars
TraceNext == TStart \/ TForeign \/ TServe \/ TDeliver \/ TStray \/ TClose \/ TOutcome \/ TEnd
TraceConstraint == TypeOK /\ NoCrossTalk /\ AnswerAfterServe /\ NotifyFireAndForget /\ FuturesExact /\ ServedOnce /\ RaisesOnlyFor /\ ForeignHarmless /\ Progress
=============================================================================
