---------------------------- MODULE HttpClientTrace ----------------------------
(* Trace validation of the real HTTP client backends talking to a scripted loopback HTTP server. *)
EXTENDS HttpClient, TraceBase
TraceInit == tid \in 1..NTraces /\ l = 1 /\ InitWith(Traces[tid].scn.scn)
\* what the server saw: number of POSTs, their content type, and whether the body was the request document
TPosted  == IsEvent("Posted") /\ DoPost /\ posted' = [n |-> E.n, ctype |-> E.ctype, body_ok |-> E.body_ok]
\* what the caller got
TOutcome == IsEvent("Outcome") /\ Receive /\ outcome' = E.o
TraceNext == TPosted \/ TOutcome
TraceConstraint == OnePost /\ BackendIrrelevant /\ Progress
=============================================================================
