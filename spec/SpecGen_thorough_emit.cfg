INIT InitThorough
CONSTANTS
  Deviations = {}
CHECK_DEADLOCK FALSE
NEXT NoNext
INVARIANT EmitScn
