----------------------------- MODULE SpecGenTrace -----------------------------
(* Trace validation of repeated real OpenAPI / OpenRPC generations against SpecGen. *)
EXTENDS SpecGen, TraceBase
DevOas30 == {"OpenApi30Invalid"}
DevDocNull == {"DocstringNullType"}
TraceInit == tid \in 1..NTraces /\ l = 1 /\ InitWith(Traces[tid].scn.scn)
Obs(e) == [fn |-> e.fn, ep |-> e.ep, name |-> e.name, result |-> e.result, reqname |-> e.reqname, errors |-> SetOf(e.errors), tags |-> e.tags, cpref |-> e.cpref, errtext |-> e.errtext,
           meta |-> MetaVerdictG(e, Len(docs) + 1)]
\* one event per generation: the document projected onto its entries, plus the judgements TLC cannot derive (DESIGN 3.4):
\* JSON-encodable, valid against the official meta-schema, no dangling $ref, user's objects deep-equal before / after
TGenerate == /\ IsEvent("Generate") /\ Generate
             /\ LET want == DocAt(heap, Len(docs) + 1) IN
                  {Obs(E.entries[k]) : k \in DOMAIN E.entries} = want /\ Len(E.entries) = Cardinality(want)
             \* pure function of the registry: the document equals the one a freshly built, identically configured specification
             \* object generates for the same registry (whatever this object generated before)
             /\ E.fresh_same = TRUE
             /\ E.json_ok = TRUE /\ (E.meta_ok = TRUE \/ MetaMayFail) /\ E.refs_closed = TRUE /\ E.heap_same = TRUE
TraceNext == TGenerate
TraceConstraint == Idempotent /\ Isolated /\ ExactlyOnce /\ Progress
=============================================================================
