----------------------------- MODULE RegistryMC -----------------------------
EXTENDS Registry, Json
R4 == {"d", "r0", "ra", "rab"}
Pfx == [d |-> <<>>, r0 |-> <<>>, ra |-> <<"a">>, rab |-> <<"a", "b">>]
KeysOf(r) == LET ns == DOMAIN map[r] IN ns
EmitScn == (Bound /\ Len(hist) = MaxOps) => PrintT(<<"SCN", ToJson([hist |-> hist])>>)
AddOps == {[op |-> "add", r |-> r, fn |-> f] : r \in R4, f \in {"f", "g"}}
NamedOps == {[op |-> "addnamed", r |-> r, fn |-> "f", name |-> n] : r \in R4, n \in {<<"x">>, <<"y", "z">>, <<"g">>}}
ViewOps == {[op |-> "view", r |-> r, vp |-> vp, cls |-> c] : r \in R4, vp \in {<<>>, <<"v">>}, c \in {"V", "W", "M"}}
MergeOps == {[op |-> "merge", r |-> r, o |-> o] : r \in R4, o \in {"r0", "ra", "rab"}} \ {[op |-> "merge", r |-> x, o |-> x] : x \in R4}
OpsAll == AddOps \cup NamedOps \cup ViewOps \cup MergeOps
\* `add ra g` and `addnamed ra f "g"` put two different functions under ONE name of the same registry (the later wins - also
\* in a registry that merged the earlier one before: merging again brings the replacement)
OpsSmall == {[op |-> "add", r |-> "ra", fn |-> "g"], [op |-> "add", r |-> "ra", fn |-> "f"], [op |-> "add", r |-> "rab", fn |-> "g"], [op |-> "add", r |-> "d", fn |-> "f"],
             [op |-> "addnamed", r |-> "ra", fn |-> "f", name |-> <<"g">>], [op |-> "addnamed", r |-> "r0", fn |-> "f", name |-> <<"y", "z">>],
             [op |-> "view", r |-> "ra", vp |-> <<"v">>, cls |-> "V"], [op |-> "view", r |-> "rab", vp |-> <<>>, cls |-> "W"],
             [op |-> "view", r |-> "d", vp |-> <<>>, cls |-> "V"], [op |-> "view", r |-> "r0", vp |-> <<>>, cls |-> "M"],
             [op |-> "merge", r |-> "ra", o |-> "rab"], [op |-> "merge", r |-> "rab", o |-> "ra"], [op |-> "merge", r |-> "r0", o |-> "ra"],
             [op |-> "merge", r |-> "d", o |-> "ra"], [op |-> "merge", r |-> "d", o |-> "r0"], [op |-> "merge", r |-> "ra", o |-> "r0"]}
=============================================================================
