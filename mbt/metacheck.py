"""Run under python3-vt (jsonschema 4.x): validates generated documents against the official meta-schemas and checks that
every local $ref resolves.   usage: metacheck.py DOCS.json OUT.json     DOCS: [{"kind": ..., "doc": ...}, ...]"""
import json
import os
import sys

import jsonschema

RES = os.path.join(os.path.dirname(os.path.dirname(os.path.abspath(__file__))), 'resources')
META = {
    'openapi31': (json.load(open(os.path.join(RES, 'oas-3.1-meta.json'))), jsonschema.Draft202012Validator),
    'openapi30': (json.load(open(os.path.join(RES, 'oas-3.0-meta.json'))), jsonschema.Draft4Validator),
    'openrpc': (json.load(open(os.path.join(RES, 'openrpc-1.3.2.json'))), jsonschema.Draft7Validator),
}
VALIDATORS = {k: cls(schema) for k, (schema, cls) in META.items()}


def refs(node, out):
    if isinstance(node, dict):
        for k, v in node.items():
            if k == '$ref' and isinstance(v, str):
                out.append(v)
            else:
                refs(v, out)
    elif isinstance(node, list):
        for v in node:
            refs(v, out)


def resolves(doc, ref):
    if not ref.startswith('#/'):
        return ref.startswith('#') and ref == '#'
    cur = doc
    for part in ref[2:].split('/'):
        part = part.replace('~1', '/').replace('~0', '~')
        if isinstance(cur, dict) and part in cur:
            cur = cur[part]
        elif isinstance(cur, list) and part.isdigit() and int(part) < len(cur):
            cur = cur[int(part)]
        else:
            return False
    return True


def main():
    out = []
    for item in json.load(open(sys.argv[1])):
        doc = item['doc']
        errs = sorted(VALIDATORS[item['kind']].iter_errors(doc), key=lambda e: list(e.absolute_path))[:3]
        rs = []
        refs(doc, rs)
        dangling = [r for r in rs if not resolves(doc, r)]
        out.append({'meta_ok': not errs, 'refs_closed': not dangling,
                    'why': [('%s: %s' % ('/'.join(map(str, e.absolute_path)), e.message))[:300] for e in errs] + dangling[:3]})
    json.dump(out, open(sys.argv[2], 'w'))


if __name__ == '__main__':
    main()
