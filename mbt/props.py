"""The registered checks: which stages decide which property.  Configuration only."""
from .runner import Stage

ASSUME_COMMON = [
    'the finite JSON alphabet of spec/JsonValues.tla (one concrete representative per class, mbt/jsonvals.py) '
    'is adequate: behaviour outside every alphabet and outside the random inputs of the thorough tier is not seen',
    'TLC 1.8 and its Json/IOUtils community modules are correct; the drivers only concretise / abstract',
]


def wire_stages(tier, kinds):
    t = 'quick' if tier == 'quick' else 'thorough'
    pre = kinds
    return [
        Stage('wire', mc=('WireMC', 'Wire_%s.cfg' % t), emit=('WireMC', 'Wire_%s_emit.cfg' % t), driver='wire',
              trace=('WireTrace', 'WireTrace.cfg'), scn_filter=lambda s: s['kind'].startswith(pre),
              nontrivial=lambda tr: len(tr['ev']) >= 2,
              post_traces=lambda trs: [x for x in trs if not x.get('unconstructible')]),
    ]


def c05(tier, seed):
    t = 'quick' if tier == 'quick' else 'thorough'
    return dict(
        stages=wire_stages(tier, 'rt_') + [
            Stage('batchids', mc=('BatchIdsMC', 'BatchIds_%s.cfg' % t), emit=('BatchIdsMC', 'BatchIds_%s_emit.cfg' % t),
                  driver='batchids', trace=('BatchIdsTrace', 'BatchIdsTrace.cfg'),
                  nontrivial=lambda tr: len(tr['ev']) >= 2)],
        rule='every message of the model alphabets (requests, responses, errors, batches of length 0..%d, batch-level '
             'errors) is built with the real constructors, serialised (to_json and JSONEncoder), decoded, '
             'deserialised and serialised again; a case is non-trivial when its trace has the Ser, Parse and Reser '
             'events and TLC accepted it; distinct = distinct abstract message' % (2 if tier == 'quick' else 3),
        assumptions=ASSUME_COMMON + ['payload fidelity is observed through type-exact equality with the alphabet '
                                     'representatives (big ints, floats, escapes, astral, nested containers)'],
        exhaustive=True)


def c06(tier, seed):
    t = 'quick' if tier == 'quick' else 'thorough'
    st = wire_stages(tier, 'p_') + [
        Stage('batchids', mc=('BatchIdsMC', 'BatchIds_%s.cfg' % t), emit=('BatchIdsMC', 'BatchIds_%s_emit.cfg' % t),
              driver='batchids', trace=('BatchIdsTrace', 'BatchIdsTrace.cfg'),
              nontrivial=lambda tr: any(e['v'] == 'Identity' for e in tr['ev'])),
    ]
    return dict(
        stages=st,
        rule='full product of the per-member alphabets for request / error objects, a reduced product for responses '
             'in the quick tier (full in thorough), batches of up to %d elements, all append/extend histories within '
             'the bounds of BatchIds_%s.cfg; non-trivial = the document passes the first member check (>=2 events) '
             'or the history contains a rejected operation' % (2 if tier == 'quick' else 3, t),
        assumptions=ASSUME_COMMON,
        exhaustive=True)


CHECKS = {'C05': c05, 'C06': c06}
