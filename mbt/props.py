"""The registered checks: which stages decide which property.  Configuration only."""
from .runner import Stage

ASSUME_COMMON = [
    'the finite JSON alphabet of spec/JsonValues.tla (one concrete representative per class, mbt/jsonvals.py) '
    'is adequate: behaviour outside every alphabet and outside the random inputs of the thorough tier is not seen',
    'TLC 1.8 and its Json/IOUtils community modules are correct; the drivers only concretise / abstract',
]


def randomized(stage, seed):
    """thorough tier: the same scenarios again with random representatives of every class whose content no rule inspects
    (ids, strings, big integers, floats, nested payloads; mbt/jsonvals.randomize, seeded by VERIF_SEED)"""
    import copy
    st = copy.copy(stage)
    st.name = stage.name + '_rand'
    st.mc = None
    st.selftest = False
    st.drive_env = dict(stage.drive_env or {}, VERIF_RANDOMIZE=str(seed + 1))
    return st


def wire_stages(tier, kinds, seed=0):
    t = 'quick' if tier == 'quick' else 'thorough'
    pre = kinds
    st = _wire_stages(t, pre)
    return st if tier == 'quick' else st + [randomized(st[0], seed)]


def _wire_stages(t, pre):
    return [
        Stage('wire', mc=('WireMC', 'Wire_%s.cfg' % t), emit=('WireMC', 'Wire_%s_emit.cfg' % t), driver='wire',
              trace=('WireTrace', 'WireTrace.cfg'), scn_filter=lambda s: s['kind'].startswith(pre),
              nontrivial=lambda tr: len(tr['ev']) >= 2,
              post_traces=lambda trs: [x for x in trs if not x.get('unconstructible')]),
    ]


def c05(tier, seed):
    t = 'quick' if tier == 'quick' else 'thorough'
    return dict(
        stages=wire_stages(tier, 'rt_', seed) + [
            Stage('batchids', mc=('BatchIdsMC', 'BatchIds_%s.cfg' % t), emit=('BatchIdsMC', 'BatchIds_%s_emit.cfg' % t),
                  driver='batchids', trace=('BatchIdsTrace', 'BatchIdsTrace.cfg'),
                  nontrivial=lambda tr: len(tr['ev']) >= 2)],
        rule='(error classes: standard, user classes for 2001 / 0, a scoping base with its own get_error_cls, a history of registrations for 2002; strict and non-strict batches) every message of the model alphabets (requests, responses, errors, batches of length 0..%d, batch-level '
             'errors) is built with the real constructors, serialised (to_json and JSONEncoder), decoded, '
             'deserialised and serialised again; a case is non-trivial when its trace has the Ser, Parse and Reser '
             'events and TLC accepted it; distinct = distinct abstract message' % (2 if tier == 'quick' else 3),
        assumptions=ASSUME_COMMON + ['payload fidelity is observed through type-exact equality with the alphabet '
                                     'representatives (big ints, floats, escapes, astral, nested containers)'],
        exhaustive=True)


def c06(tier, seed):
    t = 'quick' if tier == 'quick' else 'thorough'
    st = wire_stages(tier, 'p_', seed) + [
        Stage('batchids', mc=('BatchIdsMC', 'BatchIds_%s.cfg' % t), emit=('BatchIdsMC', 'BatchIds_%s_emit.cfg' % t),
              driver='batchids', trace=('BatchIdsTrace', 'BatchIdsTrace.cfg'),
              nontrivial=lambda tr: any(e['v'] == 'Identity' for e in tr['ev'])),
    ]
    return dict(
        stages=st,
        rule='(strict and non-strict batch objects; a scoping base class among the bases) full product of the per-member alphabets for request / error objects, a reduced product for responses '
             'in the quick tier (full in thorough), batches of up to %d elements, all append/extend histories within '
             'the bounds of BatchIds_%s.cfg; non-trivial = the document passes the first member check (>=2 events) '
             'or the history contains a rejected operation' % (2 if tier == 'quick' else 3, t),
        assumptions=ASSUME_COMMON,
        exhaustive=True)



def disp_stage(fam, name=None):
    return Stage(name or ('dispatch_' + fam), mc=('Disp_' + fam, 'Disp_%s.cfg' % fam), emit=('Disp_' + fam, 'Disp_%s_emit.cfg' % fam),
                 driver='dispatcher', trace=('DispatcherTrace', 'DispatcherTrace.cfg'),
                 nontrivial=lambda tr: len(tr['ev']) >= 2)


ASSUME_DISP = ASSUME_COMMON + [
    'registered methods return JSON-encodable values and the instrumented middlewares / error handlers do not raise '
    '(the proviso of C01)',
    'a 5000-digit integer literal and max_batch_size=0 are explicit don\'t-care regions of the specification '
    '(any well-formed -32700/-32600/-32603 reply with id null; no-limit or reject)',
    'message and data of library-generated errors are not fixed by the statements: any string / anything is accepted',
]


def c01(tier, seed):
    t = 'quick' if tier == 'quick' else 'thorough'
    stages = [disp_stage('c01_' + t), disp_stage('c03')]
    if tier != 'quick':
        stages += [randomized(x, seed) for x in stages]
    return dict(stages=stages,
                rule='(plus batches behind self-answering / dropping middlewares, ids that are arrays / objects, a notification failing while being bound) single request objects over the full product of member alphabets (jsonrpc x id x method x params), '
                     'non-object JSON values, non-JSON text classes, 5000-digit literals, batches of <= %d elements over a '
                     '12-element alphabet x {sync, async+coroutines, async+plain functions} x max_batch_size {unset,0,1,2}; '
                     'non-trivial = a method, middleware or handler ran before the reply (>= 2 events)' % (2 if tier == 'quick' else 3),
                assumptions=ASSUME_DISP, exhaustive=True)


def c02(tier, seed):
    t = 'quick' if tier == 'quick' else 'thorough'
    stages = [disp_stage('c02_' + t), disp_stage('c03')]     # c03: every exception type a method body may raise (each element runs exactly once)
    if tier != 'quick':
        stages += [randomized(x, seed) for x in stages]
    stages.append(twins_stage(t))
    return dict(stages=stages,
                rule='(plus: the failure corpus of C03 - methods raising each of 18 exception types / protocol errors, as call, notification and batch element; look-alike methods on one dispatcher in every call order - each call runs its own method with its own arguments) all single requests and all batches of length 1..2 over 6 element kinds x 8 id typings (48 elements), '
                     'length 3%s over reduced alphabets, x max_batch_size at and around the length x 3 dispatcher flavours; '
                     'non-trivial = at least one method executed' % ('' if tier == 'quick' else ' and 4'),
                assumptions=ASSUME_DISP, exhaustive=True)


def c03(tier, seed):
    t = 'quick' if tier == 'quick' else 'thorough'
    stages = [disp_stage('c03'), disp_stage('c01_' + t)]
    if tier != 'quick':
        stages += [randomized(x, seed) for x in stages]
    stages.append(twins_stage(t))
    return dict(stages=stages,
                rule='(plus: calls that do / do not validate against look-alike validated methods on one dispatcher, in every call order) protocol errors over 7 codes x 3 messages x 8 data shapes and 8 exception types, each as call, as '
                     'notification and inside batches, plus every rejection class; and the C01 corpus; non-trivial = a method ran',
                assumptions=ASSUME_DISP + ['"nothing about the exception appears" is observed as: neither the marker '
                                           'string put into the exception, nor any exception type name, occurs in the response text'],
                exhaustive=True)


def c12(tier, seed):
    t = 'quick' if tier == 'quick' else 'thorough'
    hist = Stage('history', mc=('HistoryMC', 'History_%s.cfg' % t), emit=('HistoryMC', 'History_%s_emit.cfg' % t),
                 driver='history', trace=('DispatcherTrace', 'DispatcherTrace.cfg'), nontrivial=lambda tr: len(tr['ev']) >= 3)
    return dict(stages=[disp_stage('c12_' + t), hist],
                rule='(plus: all histories over a 14-class request corpus (incl. a second code raised through the same error class and a batch of nothing but notifications) on ONE dispatcher with middlewares and generic + per-code '
                     'handlers - the chain and the handler table are the same for every request) all middleware stacks of length 0..%s over {pass, short, rewriteReq, rewriteResp} x 9 error-handler '
                     'tables x 12 request kinds x {sync, async}; non-trivial = a middleware or handler event was recorded'
                     % ('2 (+ length 3 on a reduced product)' if tier == 'quick' else '3'),
                assumptions=ASSUME_DISP, exhaustive=True)



def c04(tier, seed):
    t = 'quick' if tier == 'quick' else 'thorough'
    return dict(
        stages=[Stage('binding', mc=('BindingMC', 'Binding_%s.cfg' % t), emit=('BindingMC', 'Binding_%s_emit.cfg' % t),
                      driver='binding', trace=('BindingTrace', 'BindingTrace.cfg'),
                      deviations={'KwRebind': 'BindingTrace_dev_KwRebind.cfg'}, sanity_events=('Direct',),
                      nontrivial=lambda tr: any(e['ev'] == 'Exec' for e in tr['ev'])), twins_stage(t)],
        rule='(plus: look-alike methods, one function under two context designations, parameterless calls and re-created functions on one '
             'dispatcher in every call order) all grammatical Python signatures of <= %d parameters over positional-only / positional-or-keyword / '
             '*args / keyword-only / **kwargs x defaults x context designation (none, by name at each admissible '
             'position, first positional, view constructor) x function / coroutine / view method x positional lists of '
             'length 0..%d and named mappings over every subset of the parameter names plus an unknown name; '
             'non-trivial = the method body ran' % ((3, 4) if tier == 'quick' else (4, 5)),
        assumptions=ASSUME_COMMON + [
            'Binding!Verdict / Expected transcribe CPython direct-call binding; every scenario cross-checks them against a '
            'real direct call on a generated function with the effective signature (event Direct), a disagreement stops the check with exit 2',
            'don\'t-care corners (DESIGN 3.3 / Appendix B): a named key equal to a positional-only parameter or to the '
            'context parameter when **kw exists may be rejected or executed with the server context'],
        exhaustive=True)



def c10(tier, seed):
    t = 'quick' if tier == 'quick' else 'thorough'
    return dict(
        stages=[Stage('asyncbatch', mc=('AsyncBatchMC', 'AsyncBatch_%s.cfg' % t), emit=('AsyncBatchMC', 'AsyncBatch_%s_emit.cfg' % t),
                      driver='asyncbatch', trace=('AsyncBatchTrace', 'AsyncBatchTrace.cfg'), mc_workers=8,
                      nontrivial=lambda tr: sum(1 for e in tr['ev'] if e['ev'] == 'Release') >= 2),
                # liveness of the model under weak fairness: every schedule ends with the batch answered
                Stage('asyncbatch_liveness', mc=('AsyncBatchMC', 'AsyncBatch_live.cfg'))],
        rule='(element kinds include views with / without a context; sequential mode also behind a plain-function middleware that schedules its handler eagerly; the return of dispatch() is logged when it happens) every release order (interleaving) of batches of %s elements, each with 0..2 suspension points placed in the '
             'middleware (before/after the handler), the method or the error handler; element types: ok / failing / plain '
             'function / notifications; concurrent and sequential mode.  The schedules are TLC\'s: each terminal state of '
             'the model is one schedule, replayed on the real AsyncDispatcher with driver-owned futures; non-trivial = '
             'a schedule with >= 2 releases' % ('3 (11 element types)' if tier == 'quick' else '4 (6 element types)'),
        assumptions=ASSUME_COMMON + ['the asyncio loop is FIFO and a task runs until it awaits a pending future (CPython\'s '
                                     'documented behaviour); the driver releases one future at a time and waits for quiescence'],
        exhaustive=True)



def retry_stage(fam):
    return Stage('retry_' + fam, mc=('Retry_' + fam, 'Retry_%s.cfg' % fam), emit=('Retry_' + fam, 'Retry_%s_emit.cfg' % fam),
                 driver='retry', trace=('RetryTrace', 'RetryTrace.cfg'),
                 nontrivial=lambda tr: sum(1 for e in tr['ev'] if e['ev'] == 'Send') >= 2)


ASSUME_CLIENT = ASSUME_COMMON + [
    'the transport is a scripted _request of a real AbstractClient / AbstractAsyncClient subclass; time.sleep / asyncio.sleep '
    'as referenced by pjrpc.client.retry are replaced by recorders in the driver process (delays are recorded, never slept)',
    'backoff parameters are integers so that TLC computes the delays exactly',
]


def apalache_retry_core():
    """thorough tier of C09: Apalache discharges the inductive invariant of spec/RetryCount.tla for a symbolic n"""
    import subprocess, shutil, tempfile, time
    from . import harness as h
    out = tempfile.mkdtemp(prefix='apalache_')
    obligations = [('Init => IndInv', ['--cinit=CInit', '--init=Init', '--inv=IndInv', '--length=0']),
                   ('IndInv /\\ Next => IndInv\'', ['--cinit=CInit', '--init=IndInit', '--inv=IndInv', '--length=1']),
                   ('IndInv => AtMostNPlus1 /\\ OnePauseBetweenSends', ['--cinit=CInit', '--init=IndInit', '--inv=Goal', '--length=0'])]
    done, notes, t0 = 0, [], time.time()
    for name, args in obligations:
        try:
            p = subprocess.run(['apalache-mc', 'check'] + args + ['--out-dir=' + out, 'RetryCount.tla'], cwd=h.tlc.SPEC_DIR,
                               stdout=subprocess.PIPE, stderr=subprocess.STDOUT, text=True, timeout=600)
            ok = p.returncode == 0 and 'EXITCODE: OK' in p.stdout
        except Exception as e:       # noqa
            ok = False
        done += ok
        notes.append('%s: %s' % (name, 'discharged' if ok else 'NOT discharged'))
    shutil.rmtree(out, ignore_errors=True)
    return {'obligations': len(obligations), 'discharged': done,
            'checker_cmd': 'apalache-mc check --cinit=CInit --init=IndInit --inv=IndInv --length=1 RetryCount.tla (and the two companions)',
            'trusted_base': ['Apalache 0.58 + z3', 'the refinement mapping RetryMC!RC (checked by TLC as invariant CountingCore for n <= 4)'],
            'apalache': notes, 'apalache_wall_s': round(time.time() - t0, 1)}


def c09(tier, seed):
    t = 'quick' if tier == 'quick' else 'thorough'
    # the real HTTP backends: what the server sees of ONE send is exactly one POST, also when the connection is dropped after an
    # earlier success (nothing below the retry loop re-sends on its own)
    http = Stage('httpclient', mc=('HttpClientMC', 'HttpClient.cfg'), emit=('HttpClientMC', 'HttpClient_emit.cfg'),
                 driver='httpclient', trace=('HttpClientTrace', 'HttpClientTrace.cfg'), drive_shards=8, selftest=False)
    return dict(stages=[retry_stage('c09_' + t), Stage('retry_liveness', mc=('Retry_c09_quick', 'Retry_c09_live.cfg')), http],
                rule='(plus: two requests on one client with different per-request strategies; the real HTTP backends against a loopback server - '
                     'exactly one POST per send, also when the connection is dropped after an earlier success) '
                     'every outcome sequence the environment can produce (TLC explores the transport\'s choices attempt by '
                     'attempt; terminal states = complete fault sequences) for n in 0..%d x codes/exceptions sets (None, '
                     'empty, one, several) x 7 backoff configurations (periodic, exponential, Fibonacci; jitter, caps, default '
                     'Fibonacci cap, cap below the first delay) x single / batch / notification x client-wide / per-request / '
                     'overriding / explicitly disabled / no strategy x sync / async; non-trivial = at least two sends'
                     % (2 if tier == 'quick' else 4),
                assumptions=ASSUME_CLIENT, exhaustive=True, extra_cov=None if tier == 'quick' else apalache_retry_core())


def c19(tier, seed):
    t = 'quick' if tier == 'quick' else 'thorough'
    return dict(stages=[retry_stage('c19_' + t)],
                rule='(tracers built on Tracer and on the library\'s LoggingTracer, caller contexts with and without attributes, requests made from inside an exception handler) every per-attempt outcome sequence (ok, error responses, transport exceptions incl. subclasses, undecodable '
                     'body, identity mismatch, unexpected body, BaseException) permitted by strategies of 0..%d attempts x 0..3 '
                     'tracers x caller-supplied / default trace context x single / batch / notification x sync / async; '
                     'non-trivial = at least two sends' % (2 if tier == 'quick' else 3),
                assumptions=ASSUME_CLIENT, exhaustive=True)



def c08(tier, seed):
    t = 'quick' if tier == 'quick' else 'thorough'
    return dict(stages=[Stage('client', mc=('ClientMC', 'Client_%s.cfg' % t), emit=('ClientMC', 'Client_%s_emit.cfg' % t),
                              driver='client', trace=('ClientTrace', 'ClientTrace.cfg'),
                              deviations={'ServerOrderResults': 'ClientTrace_dev_ServerOrderResults.cfg'},
                              nontrivial=lambda tr: len(tr['ev']) >= 2)],
                rule='(batch requests filled in six ways incl. non-strict objects and objects that grew after a first round trip, a notification as the first call, wrapper objects that made a round trip before, ids of an invalid JSON type that compare equal to the request id) the server as an adversary: for batches of calls (+ notifications) EVERY response array of length 0..4 over '
                     'the element alphabet (own ids in any order / repeated / missing, the id as a string, a foreign id, null ids, '
                     'results and errors, malformed elements), batch-level error objects, non-JSON and scalar bodies; for single '
                     'calls every id relation x body; x strict on/off; every scenario runs on the sync AND the async client; '
                     'non-trivial = an accepted batch response whose positional order was observed',
                assumptions=ASSUME_CLIENT + ['non-strict mode is an explicit don\'t-care region for the positional attribution; with null-id elements in the array '
                                             '(strict mode) the answered calls come first in call order, the place of the null-id elements is open (DESIGN 3.3)'],
                exhaustive=True)



def amqp_stages(tier):
    """spec/AmqpRpc.tla: JSON-RPC over a message broker (aio_pika client backend + server integration; the broker is the environment)"""
    quick = tier == 'quick'
    st = Stage('amqp', mc=('AmqpRpcMC', 'AmqpRpc_quick.cfg' if quick else 'AmqpRpc_thorough.cfg'),
               emit=('AmqpRpcMC', 'AmqpRpc_quick_emit.cfg'),
               extra_emits=[] if quick else [('AmqpRpcMC', 'AmqpRpc_thorough_emit.cfg', dict(simulate='num=4000', depth=16, seed=None))],
               driver='amqp', trace=('AmqpRpcTrace', 'AmqpRpcTrace.cfg'),
               nontrivial=lambda tr: sum(1 for e in tr['ev'] if e['ev'] == 'Deliver') >= 1)
    # the synchronous kombu pair: one call at a time, the client consumes replies only while it waits
    seq = Stage('kombu', mc=('AmqpRpcMC', 'AmqpRpc_seq.cfg'), emit=('AmqpRpcMC', 'AmqpRpc_seq_emit.cfg'), driver='kombu_rpc',
                trace=('AmqpRpcTrace', 'AmqpRpcTrace.cfg'), nontrivial=lambda tr: sum(1 for e in tr['ev'] if e['ev'] == 'Deliver') >= 1)
    return [st, seq, Stage('amqp_liveness', mc=('AmqpRpcMC', 'AmqpRpc_live.cfg'))]


def c07(tier, seed):
    t = 'quick' if tier == 'quick' else 'thorough'
    return dict(stages=[Stage('endtoend', mc=('EndToEndMC', 'EndToEnd_%s.cfg' % t), emit=('EndToEndMC', 'EndToEnd_%s_emit.cfg' % t),
                              driver='endtoend', trace=('EndToEndTrace', 'EndToEndTrace.cfg'),
                              deviations={'UuidIds': 'EndToEndTrace_dev_UuidIds.cfg'},
                              nontrivial=lambda tr: len(tr['ev']) >= 3), twins_stage(t)] + amqp_stages(tier),
                rule='(extension: the aio_pika client backend and server integration over an in-memory broker - every delivery order of '
                     'requests and replies for <= 2 concurrent calls / notifications on one client, shared or exclusive result queues, stray '
                     'replies, requests of a foreign producer (a call without reply queue, undecodable bytes), close() while calls wait; AmqpRpc.tla) client programs in every notation (call, __call__, proxy attribute, hand-built send, notify, batch add / '
                     '__call__ / proxy / __getitem__, batch notify mixes) x methods that return / raise a registered typed error / '
                     'an unregistered code / an arbitrary exception x no / positional / named arguments x 4 id generators x strict '
                     'on/off x sync/async client x sync/async dispatcher (full product for single calls, 7 combinations - both client halves for two of the generators - for '
                     'batches of length 1..%d); non-trivial = the request reached the dispatcher and the caller got an outcome'
                     % (3 if tier == 'quick' else 4),
                assumptions=ASSUME_CLIENT + ['"the value a direct invocation returns" is fixed by construction of the registered '
                                             'functions (they return their received arguments)'],
                exhaustive=True)



def _strip(d, keys):
    if isinstance(d, dict):
        return {k: _strip(v, keys) for k, v in d.items() if k not in keys}
    if isinstance(d, list):
        return [_strip(x, keys) for x in d]
    return d


def c11(tier, seed):
    t = 'quick' if tier == 'quick' else 'thorough'
    ev_of = lambda tr: tr['ev']                                              # noqa: E731
    disp_pair = (lambda scn: _strip(scn, ('kind', 'flavour')), lambda tr: {'ev': tr['ev'], 'reply': tr.get('reply')})
    stages = []
    for fam in (('c03', 'c12_' + t) if tier == 'quick' else ('c01_' + t, 'c03', 'c12_' + t, 'c02_' + t)):
        st = disp_stage(fam)
        st.pairing = disp_pair
        st.selftest = False
        stages.append(st)
    for fam in ('c09_' + t, 'c19_' + t):
        st = retry_stage(fam)
        st.pairing = (lambda scn: _strip(scn, ('kind',)), ev_of)
        st.selftest = False
        stages.append(st)
    cl = c08(tier, seed)['stages'][0]
    cl.pairing = (lambda scn: _strip(scn, ('kind',)), ev_of)
    cl.selftest = False
    stages.append(cl)
    e2e = c07(tier, seed)['stages'][0]
    e2e.pairing = (lambda scn: _strip(scn, ('ck', 'dk')), ev_of)
    e2e.selftest = False
    stages.append(e2e)
    # the real HTTP backends: requests / httpx (synchronous) next to httpx / aiohttp (asynchronous) against a scripted loopback server
    stages.append(Stage('httpclient', mc=('HttpClientMC', 'HttpClient.cfg'), emit=('HttpClientMC', 'HttpClient_emit.cfg'),
                        driver='httpclient', trace=('HttpClientTrace', 'HttpClientTrace.cfg'), drive_shards=8, selftest=False,
                        pairing=(lambda scn: _strip(scn, ('backend',)), ev_of)))
    return dict(stages=stages,
                rule='the request corpora of C01, C02, C03, C12 are dispatched by the synchronous dispatcher, the asynchronous '
                     'dispatcher with coroutines and the asynchronous dispatcher with plain functions; the call / transport-script '
                     'corpora of C07, C08, C09, C19 run on the synchronous and the asynchronous client; the HTTP backends (requests, httpx sync / '
                     'async, aiohttp) talk to a scripted loopback server over status x content type x body x raise_for_status; every execution is validated '
                     'against the same half-agnostic specification and each pair of recorded event sequences is compared for '
                     'equality; non-trivial = executions with at least two events',
                assumptions=ASSUME_DISP + ASSUME_CLIENT[len(ASSUME_COMMON):], exhaustive=True, also_findings_of=['C07'])



def c20(tier, seed):
    quick = tier == 'quick'
    st = Stage('mocker', mc=('MockerMC', 'Mocker_quick.cfg' if quick else 'Mocker_thorough.cfg'),
               emit=('MockerMC', 'Mocker_quick_emit.cfg' if quick else 'Mocker_thorough_emit.cfg'),
               extra_emits=[('MockerMC', 'Mocker_sim_emit.cfg', dict(simulate='num=%d' % (8000 if quick else 120000), depth=9, seed=None))]
               + [('MockerMC', 'Mocker_twins_emit.cfg', {})] + ([] if quick else [('MockerMC', 'Mocker_thorough4_emit.cfg', {})]),
               driver='mocker', trace=('MockerTrace', 'MockerTrace.cfg'),
               nontrivial=lambda tr: sum(1 for e in tr['ev'] if e.get('k') in ('single', 'batch')) >= 2)
    return dict(stages=[st],
                rule='(plus identically configured once-patches, replacement at negative indices, the real httpx backend as patched transport) operation histories over 2 endpoints x 2 methods x {result, error, callback} patches x once on/off x '
                     'replace at index 0/1 x remove (pair / endpoint) x reset x single / batch calls with ids 0, 1, "" and '
                     'positional / named params x passthrough on/off: ALL histories of length 3 over a %d-operation alphabet '
                     '(TLC exhaustive) plus %d random walks of length 7 over the full 39-operation alphabet (tlc -simulate, seeded '
                     'by VERIF_SEED)%s; each history is replayed on a PjRpcMocker patched over a synchronous and an asynchronous '
                     'transport; after every operation the reply documents and mocker.calls are validated by TLC; '
                     'non-trivial = at least two answered calls' % ((15, 8000, '') if quick else (39, 120000, ' plus all histories of length 4 over the 15-operation alphabet')),
                assumptions=ASSUME_COMMON + ['replace(idx) addresses the patch list as it currently stands (it rotates with every '
                                             'answered call), as the implementation defines it'],
                exhaustive=False)



def c15(tier, seed):
    quick = tier == 'quick'
    st = Stage('registry', mc=('RegistryMC', 'Registry_quick.cfg' if quick else 'Registry_thorough.cfg'),
               emit=('RegistryMC', 'Registry_quick_emit.cfg' if quick else 'Registry_thorough_emit.cfg'),
               extra_emits=[('RegistryMC', 'Registry_sim_emit.cfg', dict(simulate='num=%d' % (3000 if quick else 60000), depth=8, seed=None))]
               + ([] if quick else [('RegistryMC', 'Registry_quick_emit.cfg', {})]),
               driver='registry', trace=('RegistryTrace', 'RegistryTrace.cfg'),
               nontrivial=lambda tr: any(e['ev'] == 'Probe' and e['reached'] not in ('none',) for e in tr['ev']))
    return dict(stages=[st],
                rule='(view classes: a plain view, a view derived from it, a view inheriting handlers from a plain base class; spelling variants: add_methods(function / Method), one reused decorator object, decorator form of view) registration histories over {add, add with explicit (dotted) name, view with / without prefix, merge} on 4 '
                     'registries (prefixes none, "a", "a.b", and the dispatcher\'s own): %s; histories are replayed on real '
                     'MethodRegistry objects and a sync or async dispatcher (alternating); after every operation every registry\'s '
                     'key -> target table is validated, and at the end the dispatcher is probed with every registered name, every '
                     'name one edit away (dropped / doubled / trailing dot, dropped segment, case flip) and private / non-callable '
                     'member names; non-trivial = some probe reached a function'
                     % ('ALL histories of length 4 over a 16-operation alphabet (merges 3 deep, two functions competing for one name of one registry) + 3000 random walks of length 6 over the '
                        'full 37-operation alphabet' if quick else
                        'ALL histories of length 3 over the full 37-operation alphabet, all of length 4 over 16 operations, 60000 random walks of length 6'),
                assumptions=ASSUME_COMMON + ['add_methods(Method(...)) into a PREFIXED registry is not explored (DESIGN 3.3: the '
                                             'statement can be read either way)'],
                exhaustive=False)



def c18(tier, seed):
    def key(scn):
        r = scn['req']
        if (r['integ'] == 'werkzeug' and r['statusfn'] == 'custom') or r['body'] == 'non_utf8' or r['media']['variant'] == 'charset_unknown':
            return None     # non-UTF-8 bodies are a don't-care region (400 or a -32700 document)                     # werkzeug has no status function: constant 200 (modelled)
        return _strip(scn, ('integ',))
    def obs(tr):
        # the members of the reply the statement fixes: status; body class unless refused; content type only of a relayed document
        e = tr['ev'][0]
        refused = e['status'] in (400, 415)
        return {'status': e['status'], 'execs': e['execs'], 'body': 'any' if refused else e['body'],
                'ctype': e['ctype'] if (not refused and e['body'] in ('same', 'parse_error')) else 'any'}
    st = Stage('httpgate', mc=('HttpGateMC', 'HttpGate.cfg'), emit=('HttpGateMC', 'HttpGate_emit.cfg'), driver='httpgate',
               trace=('HttpGateTrace', 'HttpGateTrace.cfg'), drive_shards=8, pairing=(key, obs),
               nontrivial=lambda tr: tr['ev'] and tr['ev'][0].get('execs', 0) > 0)
    return dict(stages=[st],
                rule='(as built now: 42 media types incl. charset parameters other than utf-8 and a charset parameter that names no known encoding (dispatched, or refused with 400 running nothing - never a server error), 11 body classes incl. parameters that do not bind, a status function over the whole tuple of codes, a third endpoint - aiohttp: sub-application) integrations {aiohttp (loopback test server), flask, werkzeug (test clients)} x 25 media types (each documented '
                     'type plain / with charset / upper-case / both / with spaces; near-miss, unrelated, +json suffix, missing header) x '
                     '10 body classes (call, failing call, notification, batches, unknown method, invalid, not JSON, not UTF-8) x '
                     'default / custom status function x main / additional endpoint: the full product (3000 requests); every reply is '
                     'validated by TLC and the replies of the integrations to the same request are compared pairwise; '
                     'non-trivial = a method ran',
                assumptions=ASSUME_COMMON + ['"exactly the dispatcher\'s response document" is observed as JSON-value equality with what an '
                                             'identically configured dispatcher returns for the same text', 'a non-UTF-8 body is a '
                                             'don\'t-care region: 400 or a -32700 document, but no method may run'],
                exhaustive=True)



def twins_stage(t):
    """look-alike validated methods (same function name, qualified name and parameter names, different annotations / schemas)
    served by one dispatcher in every call order: each call's outcome depends on the call alone"""
    return Stage('twins', emit=('HistoryMC', 'Twins_%s_emit.cfg' % t), driver='twins', trace=('TwinsTrace', 'TwinsTrace.cfg'),
                 extra_emits=[] if t == 'quick' else [('HistoryMC', 'Twins_thorough8_emit.cfg', {})],
                 nontrivial=lambda tr: len(tr['ev']) >= 2)


def c13(tier, seed):
    import random
    quick = tier == 'quick'
    t = 'quick' if quick else 'thorough'

    def threads(tier_, seed_):
        rnd = random.Random(seed_)
        long = [{'threads': n, 'seqs': [[rnd.randint(1, 14) for _ in range(25 if quick else 120)] for _ in range(n)]}
                for n in ((2, 4, 8, 16) if quick else (2, 3, 4, 6, 8, 12, 16, 16))]
        # many FRESH dispatchers whose very first dispatches overlap (whatever a dispatcher builds lazily on first use is built
        # while another thread is already asking for it)
        fresh = [{'threads': n, 'seqs': [[rnd.randint(1, 14) for _ in range(4)] for _ in range(n)]}
                 for _ in range(12 if quick else 60) for n in (2, 4, 8, 16)]
        return long + fresh

    def retention(tier_, seed_):
        return [{'flavour': f, 'kind': k, 'n': n} for f in ('func', 'func0', 'func_exc', 'view', 'view_ctx', 'view_typed', 'view_schema', 'schema', 'typed')
                for k in ('sync', 'async') for n in ((1, 10, 200) if quick else (1, 10, 1000))]
    return dict(stages=[
        Stage('history', mc=('HistoryMC', 'History_%s.cfg' % t), emit=('HistoryMC', 'History_%s_emit.cfg' % t),
              driver='history', trace=('DispatcherTrace', 'DispatcherTrace.cfg'), extra_scenarios=threads,
              nontrivial=lambda tr: len(tr['ev']) >= 3),
        twins_stage(t),
        Stage('retention', driver='retention', trace=('HistoryTrace', 'HistoryTrace.cfg'), extra_scenarios=retention,
              deviations={'ViewSignatureCache': 'HistoryTrace_dev_ViewSignatureCache.cfg'},
              nontrivial=lambda tr: len(tr['ev']) >= 10)],
        rule='(a) ALL histories of length %d over a 14-class request corpus and over 8 calls to look-alike validated methods (same function name and parameter names, different annotations / schemas) (calls, notifications, every failure class, batches, '
             'rejected documents) on ONE dispatcher with middlewares and generic + per-code error handlers (sync / async '
             'alternating): every single dispatch is validated by TLC against Dispatcher.tla, i.e. its reply may depend on its '
             'own text only; (b) N in {1, 10, %d} dispatches with a fresh context object each for function methods (context by '
             'name), view methods without / with context, JSON-schema and pydantic validated methods, sync and async: after '
             'every dispatch gc runs and the live contexts and the growth of gc-tracked objects are reported (required: 0 / no); '
             '(c) thread pools of 2..16 threads dispatching random interleaved sequences over the corpus on one synchronous '
             'dispatcher (sampled schedules, seeded by VERIF_SEED; the interpreter switches threads as often as it can; besides the long runs 48 (thorough: 240) fresh dispatchers whose very first dispatches overlap), every dispatch validated on its own; by content, a history runs with RE-ENTRANT use: the method dispatches another corpus entry on the same dispatcher before it returns; non-trivial = a '
             'dispatch with >= 3 events / a retention run of >= 10 dispatches' % ((3, 200) if quick else (4, 1000)),
        assumptions=ASSUME_DISP + ['thread schedules are sampled, not enumerated (CPython has no deterministic scheduler); asyncio '
                                   'schedules are enumerated under C10', 'gc.collect() + object counts observe retention; methods keep no state of their own'],
        exhaustive=False)



def c14(tier, seed):
    t = 'quick' if tier == 'quick' else 'thorough'
    return dict(stages=[Stage('validation', mc=('ValidationMC', 'Validation_%s.cfg' % t), emit=('ValidationMC', 'Validation_%s_emit.cfg' % t),
                              driver='validation', trace=('ValidationTrace', 'ValidationTrace.cfg'), sanity_events=('Sanity',),
                              nontrivial=lambda tr: any(e['ev'] == 'Exec' for e in tr['ev'])), twins_stage(t)],
                rule='(plus: look-alike validated methods on one dispatcher in every call order) validators {JsonSchemaValidator, PydanticValidator with / without coercion} x signatures of 2 parameters over '
                     'every pair of per-parameter schema fragments (integer, minimum, maximum, string enum, boolean, array of '
                     'integers; required / additionalProperties) or annotations (int, str, bool, Optional[int], List[int]) x last '
                     'parameter with / without default x positional prefixes and named subsets x %d argument values per parameter '
                     '(conforming, convertible, non-conforming) + signatures of 1 parameter with a context parameter / a parameter '
                     'removed by the exclusion predicate which the client may try to set; non-trivial = the body ran'
                     % (8 if tier == 'quick' else 12),
                assumptions=ASSUME_COMMON + ['Validation!SchemaConf / PydConf transcribe jsonschema / pydantic on bare values; every '
                                             'scenario cross-checks them against jsonschema.validate / pydantic.TypeAdapter (event Sanity), '
                                             'a disagreement stops the check with exit 2',
                                             'convertible-but-not-conforming values under the type validator are a don\'t-care region: rejected, '
                                             'or executed with the original (coercion off) / converted (coercion on) value'],
                exhaustive=True)



def c17(tier, seed):
    t = 'quick' if tier == 'quick' else 'thorough'
    return dict(
        stages=[Stage('docparams', mc=('BindingMC', 'BindingDoc_%s.cfg' % t), emit=('BindingMC', 'BindingDoc_%s_emit.cfg' % t),
                      driver='binding', trace=('BindingTrace', 'BindingTrace.cfg'),
                      sanity_events=('Direct',),
                      nontrivial=lambda tr: sum(1 for e in tr['ev'] if e['ev'] == 'Doc') == 2 and any(e['ev'] == 'Exec' for e in tr['ev'])), twins_stage(t)],
        rule='(plus: look-alike methods on one dispatcher in every call order - what binds does not depend on earlier requests) all signatures of <= %d parameters over positional-or-keyword / keyword-only kinds x defaults x context parameter (by '
             'name at each position, first positional, view constructor) or a defaulted parameter removed by the exclusion '
             'predicate x function / coroutine / view method x direct / merged registration: for each the real OpenAPI request '
             'schema and OpenRPC params list are generated (pydantic extractor) and projected to (names, required); then ALL params '
             'objects over subsets of (parameter names + one undocumented name) are dispatched.  TLC checks on the model that '
             'satisfying names + required <=> binding succeeds, and validates documents and dispatch outcomes of every case; '
             'non-trivial = both documents produced and the body ran' % (3 if tier == 'quick' else 4),
        assumptions=ASSUME_COMMON + ['the documents are generated with PydanticSchemaExtractor (the extractor that derives parameters from signatures)'],
        exhaustive=True)



def c16(tier, seed):
    t = 'quick' if tier == 'quick' else 'thorough'
    return dict(stages=[Stage('specgen', mc=('SpecGenMC', 'SpecGen_%s.cfg' % t), emit=('SpecGenMC', 'SpecGen_%s_emit.cfg' % t),
                              driver='specgen', trace=('SpecGenTrace', 'SpecGenTrace.cfg'),
                              deviations={'OpenApi30Invalid': 'SpecGenTrace_dev_OpenApi30Invalid.cfg',
                                          'DocstringNullType': 'SpecGenTrace_dev_DocstringNullType.cfg'},
                              nontrivial=lambda tr: len(tr['ev']) == 3),
                        Stage('specendpoint', mc=('SpecEndpointMC', 'SpecEndpoint.cfg'), emit=('SpecEndpointMC', 'SpecEndpoint_emit.cfg'),
                              driver='specendpoint', trace=('SpecEndpointTrace', 'SpecEndpointTrace.cfg'), drive_shards=4,
                              nontrivial=lambda tr: len(tr['ev']) == 2)],
                rule='(the aiohttp / flask applications additionally serve the document over HTTP: GET of the specification URL twice, for '
                     'one / two endpoints x two base paths x the three document kinds) method sets of 1..%d methods from a pool of 4 functions (annotated scalar / container / model / optional '
                     'parameters, model / list / None / missing return annotations, docstrings with and without :param / :raises:) x '
                     'root / additional endpoint x errors annotation unset / own list / ONE LIST OBJECT SHARED by several methods x tags x '
                     'component prefix x extractor stacks (base, pydantic, docstring+pydantic; OpenRPC: pydantic, docstring) x two '
                     'endpoint path prefixes x OpenAPI 3.1 / 3.0 / OpenRPC x 3 repeated generations on the same specification '
                     'object; every document is projected onto its entries (method, endpoint, error codes, tags, component prefix) and '
                     'judged for JSON-encodability, meta-schema validity (jsonschema 4 under python3-vt), dangling $ref and mutation of '
                     'the user objects; non-trivial = three documents were generated' % (2 if tier == 'quick' else 3),
                assumptions=ASSUME_COMMON + ['meta-schema validity, $ref closure, JSON-encodability and deep equality of user objects are '
                                             'computed by the driver (jsonschema 4.26, official meta-schemas copied from the repository\'s test '
                                             'resources) and required to be TRUE by the trace specification (DESIGN 3.4)',
                                             'the empty endpoint path "" is not explored (OpenAPI paths must start with "/")',
                                             'documented parameters are covered by C17'],
                exhaustive=True)


CHECKS = {'C04': c04, 'C16': c16, 'C17': c17, 'C14': c14, 'C13': c13, 'C18': c18, 'C15': c15, 'C20': c20, 'C11': c11, 'C07': c07, 'C08': c08, 'C09': c09, 'C19': c19, 'C10': c10, 'C01': c01, 'C02': c02, 'C03': c03, 'C05': c05, 'C06': c06, 'C12': c12}
