"""Process plumbing around TLC: run a model, collect statistics, PrintT payloads and verdicts.

No property logic lives here.  Everything TLC prints through PrintT(<<"TAG", ToJson(x)>>) is
returned as decoded JSON under out.tagged["TAG"].
"""
import json
import os
import re
import shutil
import subprocess
import tempfile
import time

SPEC_DIR = os.path.join(os.path.dirname(os.path.dirname(os.path.abspath(__file__))), 'spec')
TLA_CP = '/opt/veriftools/tla/tla2tools.jar:/opt/veriftools/tla/CommunityModules-deps.jar'

_TAGGED = re.compile(r'<<\s*"([A-Z_]+)",\s*"((?:[^"\\]|\\.)*)"\s*>>', re.S)
_TAGNUM = re.compile(r'<<\s*"([A-Z_]+)",\s*(-?\d+(?:\s*,\s*-?\d+)*)\s*>>')
_STATS = re.compile(r'(\d+) states generated, (\d+) distinct states found, (\d+) states left on queue')
_DEPTH = re.compile(r'The depth of the complete state graph search is (\d+)')
_INVVIOL = re.compile(r'Error: Invariant (\S+) is violated')
_ACTVIOL = re.compile(r'Error: Action property (\S+) is violated')
_COV = re.compile(r'^<(\w+) line (\d+), col (\d+) to line (\d+), col (\d+) of module (\w+)>: (\d+):(\d+)', re.M)


class TlcResult:
    def __init__(self):
        self.rc = None
        self.stdout = ''
        self.generated = 0
        self.distinct = 0
        self.depth = 0
        self.wall_s = 0.0
        self.tagged = {}       # TAG -> list of decoded JSON payloads
        self.tagnums = {}      # TAG -> list of int tuples
        self.violated = []     # names of violated invariants / properties
        self.errors = []       # other "Error:" lines
        self.coverage = {}     # action name -> (generated, distinct)
        self.cmd = ''

    @property
    def ok(self):
        return self.rc == 0 and not self.violated and not self.errors


def _decode_tla_string(lit):
    # TLC prints a TLA+ string with \" and \\ escapes; the content is JSON text
    s = lit.replace('\\\\', '\x00').replace('\\"', '"').replace('\x00', '\\')
    return json.loads(s)


def run_tlc(module, cfg, workers=16, env=None, timeout=3600, coverage=False, simulate=None,
            depth=None, seed=None, jvm_props=(), extra=(), cwd=None, heap='8g'):
    """Run TLC on SPEC_DIR/<module>.tla with config <cfg> (path relative to SPEC_DIR)."""
    cwd = cwd or SPEC_DIR
    meta = tempfile.mkdtemp(prefix='tlcmeta_')
    cmd = ['java', '-XX:+UseParallelGC', '-Xmx' + heap]
    cmd += ['-D' + p for p in jvm_props]
    cmd += ['-cp', TLA_CP, 'tlc2.TLC', '-workers', str(workers), '-metadir', meta, '-noGenerateSpecTE',
            '-nowarning', '-config', cfg]
    if coverage:
        cmd += ['-coverage', '1']
    if simulate:
        cmd += ['-simulate', simulate]
    if depth:
        cmd += ['-depth', str(depth)]
    if seed is not None:
        cmd += ['-seed', str(seed)]
    cmd += list(extra) + [module]
    e = dict(os.environ)
    e.pop('JAVA_TOOL_OPTIONS', None)
    if env:
        e.update({k: str(v) for k, v in env.items()})
    res = TlcResult()
    res.cmd = ' '.join(cmd)
    t0 = time.time()
    try:
        p = subprocess.run(cmd, cwd=cwd, env=e, stdout=subprocess.PIPE, stderr=subprocess.STDOUT,
                           timeout=timeout, text=True, errors='replace')
        res.rc, res.stdout = p.returncode, p.stdout
    except subprocess.TimeoutExpired as ex:
        res.rc = 124
        res.stdout = (ex.stdout or b'').decode('utf-8', 'replace') if isinstance(ex.stdout, bytes) else (ex.stdout or '')
        res.errors.append('timeout after %ss' % timeout)
    finally:
        shutil.rmtree(meta, ignore_errors=True)
    res.wall_s = time.time() - t0
    out = res.stdout
    for m in _STATS.finditer(out):
        res.generated, res.distinct = int(m.group(1)), int(m.group(2))
    m = _DEPTH.search(out)
    if m:
        res.depth = int(m.group(1))
    for m in _TAGGED.finditer(out):
        try:
            res.tagged.setdefault(m.group(1), []).append(_decode_tla_string(m.group(2)))
        except Exception as ex:  # machinery failure, surfaced by the caller
            res.errors.append('undecodable PrintT payload for %s: %r' % (m.group(1), ex))
    for m in _TAGNUM.finditer(out):
        res.tagnums.setdefault(m.group(1), []).append(tuple(int(x) for x in re.split(r'\s*,\s*', m.group(2))))
    res.violated = _INVVIOL.findall(out) + _ACTVIOL.findall(out)
    for line in out.splitlines():
        if line.startswith('Error:') and 'is violated' not in line and 'behavior up to this point' not in line:
            res.errors.append(line.strip())
    if coverage:
        for m in _COV.finditer(out):
            res.coverage[m.group(1)] = (int(m.group(7)), int(m.group(8)))
    return res


def sany(module, cwd=None):
    p = subprocess.run(['java', '-cp', TLA_CP, 'tla2sany.SANY', module], cwd=cwd or SPEC_DIR,
                       stdout=subprocess.PIPE, stderr=subprocess.STDOUT, text=True)
    ok = p.returncode == 0 and 'Semantic errors' not in p.stdout and 'Parse Error' not in p.stdout \
        and '*** Errors' not in p.stdout
    return ok, p.stdout
