"""Driver for spec/Client.tla: a real client (sync and async) whose transport returns the adversarial document.
Each scenario is run on BOTH halves; the two traces are returned one after the other.
usage: client.py SCENARIOS.json TRACES.json"""
import asyncio
import json
import zlib
import logging
import sys

import pjrpc
from pjrpc.client import AbstractAsyncClient, AbstractClient
from pjrpc.common import exceptions

logging.disable(logging.CRITICAL)
IDS = {'i0': 0, 'i1': 1, 'i2': 2, 'i3': 3, 'i4': 4, 'i9': 9, 's1': '1', 's2': '2', 'null': None, 'btrue': True, 'f1_0': 1.0}
RID = {(type(v).__name__, v): k for k, v in IDS.items()}


def a_id(x):
    return RID.get((type(x).__name__, x), 'other')


_BOTH = [0]     # how an element that carries BOTH members is written (by scenario content): both filled / error null / result null


def c_elem(e):
    d = {'jsonrpc': '2.0', 'id': IDS[e['id']]}
    if e['body'] in ('result', 'both'):
        d['result'] = 'val_' + e['id']
    if e['body'] in ('error', 'both'):
        d['error'] = {'code': 3000, 'message': 'err_' + e['id']}
    if e['body'] == 'both' and _BOTH[0] == 1:
        d['error'] = None           # present but null: still both members
    if e['body'] == 'both' and _BOTH[0] == 2:
        d['result'] = None
    return d


def render(doc):
    if doc['k'] == 'notjson':
        return '{"jsonrpc": "2.0", "id": 1, "result": '
    if doc['k'] == 'scalar':
        return '42'
    if doc['k'] == 'object':
        return json.dumps(c_elem(doc['els'][0]))
    return json.dumps([c_elem(e) for e in doc['els']])


def build(scn, how=0):
    """how the batch request is filled: 0 all at once (constructor), 1 one by one (append), 2 the first one, then the rest (extend),
    3 all at once into a batch request object that does not check ids (strict=False); 4 / 5: see run_one (grown after a first round trip)"""
    if scn['mode'] == 'single':
        return pjrpc.Request('m', [1], id=1)
    reqs = []
    for pos, c in enumerate(scn['calls']):
        reqs.append(pjrpc.Request('m%d' % pos, [pos], id=None if c == 'notif' else IDS[c]))
    if how == 1:
        b = pjrpc.BatchRequest()
        for r in reqs:
            b.append(r)
        return b
    if how == 2:
        # the first one or the first two (by content), then the rest
        k = 1 + (zlib.crc32(json.dumps(scn, sort_keys=True).encode()) // 12) % 2
        b = pjrpc.BatchRequest(*reqs[:k])
        b.extend(reqs[k:])
        return b
    if how == 3:
        return pjrpc.BatchRequest(*reqs, strict=False)
    return pjrpc.BatchRequest(*reqs)


def observe(scn, request, resp, ev):
    if resp is None:        # the client treated a request with calls in it as a notification
        ev.append({'ev': 'Outcome', 'v': 'nothing_returned', 'links': []})
        return
    if scn['mode'] == 'single':
        ev.append({'ev': 'Outcome', 'v': 'ok', 'links': [{'id': a_id(resp.id), 'pos': 1 if resp.related is request else 0}]})
        return
    reqs = list(request)
    links = []
    for r in resp:
        links.append({'id': a_id(r.id), 'pos': next((p + 1 for p, q in enumerate(reqs) if r.related is q), 0)})
    ev.append({'ev': 'Outcome', 'v': 'ok', 'links': links})
    if resp.is_success and len(resp) > 0:
        ids = [a_id(r.id) for r in resp]
        by_index = [a_id(resp[j].id) for j in range(len(resp))]
        try:
            vals = list(resp.result)
            vals_same = vals == ['val_' + i for i in ids]
        except exceptions.JsonRpcError:
            vals_same = True          # an element carries an error: .result raises it (not a tuple to compare)
        ev.append({'ev': 'Tuple', 'ids': ids, 'vals_same': bool(vals_same and by_index == ids)})


WARMUP = '[{"jsonrpc": "2.0", "id": 100, "result": "w0"}, {"jsonrpc": "2.0", "id": 101, "result": "w1"}]'


def run_one(scn, kind, loop, how=0, warm=False):
    """warm: the batch wrapper object (client.batch) has already made another round trip before this one
    how 4 / 5: the batch REQUEST object itself was sent before with its first element only, then it grew by the rest
    (4: extend, 5: append one by one) and is sent again"""
    _BOTH[0] = (zlib.crc32(json.dumps(scn, sort_keys=True).encode()) // 24) % 3
    if scn['mode'] == 'batch' and scn['doc']['k'] == 'object':
        _BOTH[0] = 0        # a batch answered by ONE object with both members filled counts as a batch-level error (Client.tla); the null forms are not judged there
    text = render(scn['doc'])
    ev = []
    replies = [text]
    grown = how in (4, 5) and scn['mode'] == 'batch' and len(scn['calls']) > 1
    if kind == 'async':
        class C(AbstractAsyncClient):
            async def _request(self, request_text, is_notification=False, **kwargs):
                if is_notification and grown:
                    return None
                return replies.pop(0) if len(replies) > 1 else replies[0]
    else:
        class C(AbstractClient):
            def _request(self, request_text, is_notification=False, **kwargs):
                if is_notification and grown:
                    return None
                return replies.pop(0) if len(replies) > 1 else replies[0]
    client = C(strict=scn['strict'])
    request = build(scn, 0 if how in (4, 5) else how)
    try:
        if grown:
            rest = list(request)[1:]
            request = pjrpc.BatchRequest(*list(request)[:1])
            if scn['calls'][0] != 'notif':
                replies.insert(0, json.dumps([{'jsonrpc': '2.0', 'id': IDS[scn['calls'][0]], 'result': 'first'}]))
            r0 = loop.run_until_complete(client.batch.send(request)) if kind == 'async' else client.batch.send(request)
            assert (r0 is None) == (scn['calls'][0] == 'notif'), 'first round trip'
            if how == 4:
                request.extend(rest)
            else:
                for r in rest:
                    request.append(r)
        if scn['mode'] == 'single':
            resp = loop.run_until_complete(client.send(request)) if kind == 'async' else client.send(request)
        else:
            wrapper = client.batch
            if warm:
                replies.insert(0, WARMUP)
                first = pjrpc.BatchRequest(pjrpc.Request('w', [0], id=100), pjrpc.Request('w', [1], id=101))
                r0 = loop.run_until_complete(wrapper.send(first)) if kind == 'async' else wrapper.send(first)
                assert r0 is not None
            resp = loop.run_until_complete(wrapper.send(request)) if kind == 'async' else wrapper.send(request)
    except exceptions.DeserializationError:
        ev.append({'ev': 'Outcome', 'v': 'Deser', 'links': []})
    except exceptions.IdentityError:
        ev.append({'ev': 'Outcome', 'v': 'Identity', 'links': []})
    except ValueError as e:
        ev.append({'ev': 'Outcome', 'v': 'Deser' if isinstance(e, json.JSONDecodeError) else 'Other:ValueError', 'links': []})
    except BaseException as e:  # noqa
        ev.append({'ev': 'Outcome', 'v': 'Other:' + type(e).__name__, 'links': []})
    else:
        observe(scn, request, resp, ev)
    s = dict(scn)
    s['kind'] = kind
    return {'scn': s, 'ev': ev}


if __name__ == '__main__':
    from _guard import guarded
    loop = asyncio.new_event_loop()
    out = []
    import zlib
    for s in json.load(open(sys.argv[1])):
        h = zlib.crc32(json.dumps(s, sort_keys=True).encode())           # not the position: the enumeration order is periodic
        how, warm = h % 6, (h // 6) % 2 == 1
        out.append(guarded(run_one)(s, 'sync', loop, how, warm))
        out.append(guarded(run_one)(s, 'async', loop, how, warm))
    json.dump(out, open(sys.argv[2], 'w'))
