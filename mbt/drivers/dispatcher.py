"""Driver for spec/Dispatcher.tla: builds a real Dispatcher / AsyncDispatcher from the abstract configuration,
renders the abstract request text, calls dispatch and records middleware / method / error-handler / return
events.  No verdicts here.   usage: dispatcher.py SCENARIOS.json TRACES.json"""
import asyncio
import json
import logging
import os
import sys
import zlib

sys.path.insert(0, os.path.dirname(os.path.dirname(os.path.abspath(__file__))))
sys.path.insert(0, os.path.dirname(os.path.abspath(__file__)))
from jsonvals import ABSENT, NA, abst, conc  # noqa: E402

import pjrpc  # noqa: E402
from pjrpc.common import UNSET, exceptions  # noqa: E402
from pjrpc.server import AsyncDispatcher, Dispatcher, ViewMixin  # noqa: E402

logging.disable(logging.CRITICAL)

MARKER = 'XMARKER_7f3a91'
HUGE = '9' * 5000


class VerifBoomError(Exception):
    pass


class VerifTypedError(exceptions.JsonRpcError):
    """a typed error class with its own code and message: instances may still carry their own"""
    code = 3999
    message = 'typed'


class VerifOwnCtorError(exceptions.JsonRpcError):
    """a typed error class with a constructor of its own (keyword-only): it cannot be re-created from its args"""
    code = 3998
    message = 'own'

    def __init__(self, *, code, message, data=UNSET):
        super().__init__(code=code, message=message, data=data)


# how the method raises its protocol error: through the base class, or through a typed class whose instance overrides code / message
_VARLOCK = __import__('threading').Lock()


class CtxLocal:
    """attributes kept per thread AND per asyncio task (context variables): a task started by the dispatcher inherits the
    values of the code that started it, a nested dispatch inside a method can set its own without disturbing its siblings"""

    def __init__(self):
        object.__setattr__(self, '_vars', {})

    def _var(self, k):
        import contextvars
        vs = object.__getattribute__(self, '_vars')
        if k not in vs:
            with _VARLOCK:          # two threads asking for a new name at once must get ONE variable
                if k not in vs:
                    vs[k] = contextvars.ContextVar('verif_' + k)
        return vs[k]

    def __getattr__(self, k):
        try:
            return self._var(k).get()
        except LookupError:
            raise AttributeError(k)

    def __setattr__(self, k, v):
        self._var(k).set(v)


CUR = CtxLocal()
PERR_CLASSES = [exceptions.JsonRpcError, exceptions.ServerError, VerifTypedError, VerifOwnCtorError]


EXC = {'ValueError': ValueError, 'KeyError': KeyError, 'TypeError': TypeError, 'AssertionError': AssertionError,
       'RuntimeError': RuntimeError, 'Custom': VerifBoomError, 'LookupError': LookupError,
       'StopIteration': StopIteration, 'PjrpcDeserializationError': exceptions.DeserializationError,
       'PjrpcIdentityError': exceptions.IdentityError, 'PjrpcBaseError': exceptions.BaseError,
       'ValidationError': __import__('pjrpc.server.validators', fromlist=['ValidationError']).ValidationError,
       'TimeoutError': TimeoutError, 'OSError': OSError, 'ZeroDivisionError': ZeroDivisionError,
       'AsyncioTimeoutError': asyncio.TimeoutError, 'UnicodeDecodeError': lambda m: UnicodeDecodeError('utf-8', b'x', 0, 1, m),
       'JSONDecodeError': lambda m: json.JSONDecodeError(m, 'doc', 0)}
EXC_NAMES = ['ValueError', 'KeyError', 'TypeError', 'AssertionError', 'RuntimeError', 'VerifBoomError',
             'LookupError', 'StopIteration', 'Traceback', 'DeserializationError', 'IdentityError', 'BaseError', 'ValidationError',
             'TimeoutError', 'OSError', 'ZeroDivisionError', 'UnicodeDecodeError', 'JSONDecodeError']

NOTJSON = {
    'empty': '', 'garbage': 'hello {', 'truncated': '{"jsonrpc": "2.0", "method": "ok", "id": 1',
    'trailing_comma': '{"jsonrpc": "2.0", "method": "ok", "id": 1,}',
    'single_quotes': "{'jsonrpc': '2.0', 'method': 'ok', 'id': 1}",
    'bom': '﻿{"jsonrpc": "2.0", "method": "ok", "id": 1}', 'two_values': '{} {}',
    'unquoted_key': '{jsonrpc: "2.0", "method": "ok", "id": 1}',
}
HUGETEXT = {
    'in_params': '{"jsonrpc": "2.0", "id": 1, "method": "ok", "params": [%s]}' % HUGE,
    'as_id': '{"jsonrpc": "2.0", "id": %s, "method": "ok"}' % HUGE,
    'bare': HUGE,
    'in_batch': '[{"jsonrpc": "2.0", "id": 1, "method": "ok"}, {"jsonrpc": "2.0", "id": %s, "method": "ok"}]' % HUGE,
}


def c_req_doc(w):
    if w['shape'] != 'obj':
        return conc(w['shape'])
    d = {}
    for k in ('jsonrpc', 'id', 'method', 'params'):
        if w[k] != ABSENT:
            d[k] = conc(w[k])
    return d


def render(text):
    if text['k'] == 'notjson':
        return NOTJSON[text['cls']]
    if text['k'] == 'hugeint':
        return HUGETEXT[text['cls']]
    if text['k'] == 'batch':
        return json.dumps([c_req_doc(e) for e in text['els']])
    return json.dumps(c_req_doc(text['doc']))


def a_id(i):
    return 'notif' if i is None else abst(i)


def a_params(p):
    return 'none' if not p else abst(p)


def a_code(c):
    return abst(c)


# ------------------------------------------------------------------ abstraction of what dispatch returned
def a_err(e):
    if not isinstance(e, dict) or not set(e) <= {'code', 'message', 'data'} or 'code' not in e or 'message' not in e:
        return None
    m = e['message']
    mt = abst(m)
    if isinstance(m, str) and mt.startswith('other:'):
        mt = 'm_opaque'
    d = ABSENT
    if 'data' in e:
        d = abst(e['data'])
        if d.startswith('other:'):
            d = 'd_opaque'
    return {'code': abst(e['code']), 'message': mt, 'data': d}


NOERR = {'code': NA, 'message': NA, 'data': NA}


def a_resp(o):
    if not isinstance(o, dict) or o.get('jsonrpc') != '2.0' or not isinstance(o.get('jsonrpc'), str) or 'id' not in o:
        return {'k': 'malformed'}
    rest = set(o) - {'jsonrpc', 'id'}
    rid = 'null' if o['id'] is None else abst(o['id'])
    if rest == {'result'}:
        return {'k': 'resp', 'id': rid, 'body': 'result', 'v': abst(o['result']), 'err': NOERR}
    if rest == {'error'}:
        e = a_err(o['error'])
        if e is None:
            return {'k': 'malformed'}
        return {'k': 'resp', 'id': rid, 'body': 'error', 'v': NA, 'err': e}
    return {'k': 'malformed'}


def _reject_constant(x):
    raise ValueError('non-JSON constant ' + x)


def a_out(ret):
    if ret is None:
        return {'k': 'nothing'}, False
    if not (isinstance(ret, tuple) and len(ret) == 2 and isinstance(ret[0], str) and isinstance(ret[1], tuple)):
        return {'k': 'malformed_return'}, False
    text, codes = ret
    leak = MARKER in text or any(n in text for n in EXC_NAMES)
    try:
        doc = json.loads(text, parse_constant=_reject_constant)
    except ValueError:
        return {'k': 'not_json'}, leak
    if isinstance(doc, list):
        return {'k': 'batch', 'doc': [a_resp(o) for o in doc], 'codes': [a_code(c) for c in codes]}, leak
    return {'k': 'single', 'doc': [a_resp(doc)], 'codes': [a_code(c) for c in codes]}, leak


# ------------------------------------------------------------------ building the dispatcher
def build(cfg, ev):
    is_async = cfg['kind'] in ('async', 'asyncseq')      # asyncseq: AsyncDispatcher(concurrent_batch=False)
    coro = cfg['flavour'] in ('coro', 'wrapcoro')
    exc_t = EXC[cfg['exc']]

    started = [0]
    # history driver: a callable run INSIDE m_ok (it dispatches another request on the same dispatcher and records that
    # dispatch as a trace of its own); called with the dispatcher, awaited when the methods are coroutines
    inner = cfg.get('_inner')
    dref = []

    # only when no middleware / error handler logs events for the element (then Exec is its only event and the recorded
    # order of events stays the order of the sequential model while the COMPLETION order of the elements is reversed)
    pausing = not cfg['mws'] and not cfg['eh']['gen'] and not any(cfg['eh']['by'].values())

    async def pause():
        # coroutine methods really suspend, and the earlier an element starts the longer it takes to finish
        if not pausing:
            return
        started[0] += 1
        for _ in range(max(0, 4 - started[0])):
            await asyncio.sleep(0)

    def body(name, received, log=True):
        if log:
            ev.append({'ev': 'Exec', 'method': name, 'args': abst(received)})
            if coro:
                return None
            if inner and name == 'm_ok':
                inner(dref[0], False)
        if name == 'm_perr':
            perr = getattr(CUR, 'perr', None) or cfg['perr']    # request histories change it between requests (per thread)
            data = UNSET if perr['data'] == ABSENT else conc(perr['data'])
            raise PERR_CLASSES[cfg.get('_perrcls', 0)](code=conc(perr['code']), message=conc(perr['message']), data=data)
        if name == 'm_exc':
            raise exc_t(MARKER)
        return received

    if coro:
        async def run_coro(name, received):
            body(name, received)            # logs the execution
            if inner and name == 'm_ok':
                await inner(dref[0], True)
            await pause()
            return body(name, received, log=False)

        async def ok(a=None, b=None):
            return await run_coro('m_ok', {'a': a, 'b': b})

        async def one(a):
            return await run_coro('m_one', {'a': a, 'only': 'one'})

        async def perr_m(a=None, b=None):
            return await run_coro('m_perr', {'a': a, 'b': b})

        async def exc_m(a=None, b=None):
            return await run_coro('m_exc', {'a': a, 'b': b})
        if cfg['flavour'] == 'wrapcoro':
            import functools

            def passthrough(f):
                @functools.wraps(f)
                def wrapper(*args, **kwargs):       # an ordinary function that returns the coroutine
                    return f(*args, **kwargs)
                return wrapper
            ok, one, perr_m, exc_m = passthrough(ok), passthrough(one), passthrough(perr_m), passthrough(exc_m)
    else:
        def ok(a=None, b=None):
            return body('m_ok', {'a': a, 'b': b})

        def one(a):
            return body('m_one', {'a': a, 'only': 'one'})

        def perr_m(a=None, b=None):
            return body('m_perr', {'a': a, 'b': b})

        def exc_m(a=None, b=None):
            return body('m_exc', {'a': a, 'b': b})

    def mw_pre(k, kind, request):
        ev.append({'ev': 'MwEnter', 'k': k, 'rid': a_id(request.id), 'method': abst(request.method),
                   'params': a_params(request.params)})
        if kind == 'rewriteReq':
            return pjrpc.Request(request.method, [1], request.id)
        return request

    def mw_post(k, kind, request, resp):
        if kind == 'rewriteResp' and isinstance(resp, pjrpc.Response) and resp.is_success:
            resp = pjrpc.Response(id=resp.id, result='mw_rewritten')
        ev.append({'ev': 'MwExit', 'k': k, 'rid': a_id(request.id),
                   'r': 'resp' if isinstance(resp, pjrpc.Response) else 'nothing'})
        return resp

    def short(request, kind='short'):
        if kind == 'shortall':
            return pjrpc.Response(id=request.id, result='mw_short')
        if kind == 'drop':
            return UNSET
        return UNSET if request.id is None else pjrpc.Response(id=request.id, result='mw_short')

    def make_mw(k, kind):
        if is_async:
            async def mw(request, context, handler):
                r2 = mw_pre(k, kind, request)
                resp = short(request, kind) if kind in ('short', 'shortall', 'drop') else await handler(r2, context)
                return mw_post(k, kind, request, resp)
        else:
            def mw(request, context, handler):
                r2 = mw_pre(k, kind, request)
                resp = short(request, kind) if kind in ('short', 'shortall', 'drop') else handler(r2, context)
                return mw_post(k, kind, request, resp)
        return mw

    def eh_body(key, idx, kind, request, error):
        cin = error.code
        if kind == 'mutate':
            error.code, error.message = 2001, 'b'       # edits the object it was given
        new = exceptions.JsonRpcError(code=2001, message='b') if kind == 'replace' else error
        ev.append({'ev': 'Eh', 'key': key, 'idx': idx, 'cin': abst(cin), 'cout': abst(new.code),
                   'rid': a_id(request.id)})
        return new

    def make_eh(key, idx, kind):
        if is_async:
            async def eh(request, context, error):
                return eh_body(key, idx, kind, request, error)
        else:
            def eh(request, context, error):
                return eh_body(key, idx, kind, request, error)
        return eh

    handlers = {}
    if cfg['eh']['gen']:
        handlers[None] = [make_eh('None', i + 1, k) for i, k in enumerate(cfg['eh']['gen'])]
    for code, kinds in cfg['eh']['by'].items():
        if kinds:
            handlers[conc(code)] = [make_eh(code, i + 1, k) for i, k in enumerate(kinds)]
    mb = cfg['maxBatch']
    kwargs = dict(middlewares=[make_mw(i + 1, k) for i, k in enumerate(cfg['mws'])], error_handlers=handlers,
                  max_batch_size=None if mb == 'unset' else int(mb[1:]))
    if cfg['kind'] == 'asyncseq':
        kwargs['concurrent_batch'] = False
    d = AsyncDispatcher(**kwargs) if is_async else Dispatcher(**kwargs)
    dref.append(d)

    class Boom(ViewMixin):
        """a class based view that cannot be built: calls to its methods fail while they are being bound"""

        def __init__(self, context=None):
            raise RuntimeError(MARKER)

    def never(self, a=None, b=None):
        return body('m_int', {'a': a, 'b': b})
    never.__name__ = 'int'
    setattr(Boom, 'int', never)
    d.registry.view(Boom)
    if cfg.get('_style') == 'view' and cfg['flavour'] != 'wrapcoro':
        # the same four methods as members of a class based view (a new view object per request)
        if coro:
            class Api(ViewMixin):
                async def ok(self, a=None, b=None):
                    return await run_coro('m_ok', {'a': a, 'b': b})

                async def one(self, a):
                    return await run_coro('m_one', {'a': a, 'only': 'one'})

                async def perr(self, a=None, b=None):
                    return await run_coro('m_perr', {'a': a, 'b': b})

                async def exc(self, a=None, b=None):
                    return await run_coro('m_exc', {'a': a, 'b': b})
        else:
            class Api(ViewMixin):
                def ok(self, a=None, b=None):
                    return body('m_ok', {'a': a, 'b': b})

                def one(self, a):
                    return body('m_one', {'a': a, 'only': 'one'})

                def perr(self, a=None, b=None):
                    return body('m_perr', {'a': a, 'b': b})

                def exc(self, a=None, b=None):
                    return body('m_exc', {'a': a, 'b': b})
        d.registry.view(Api)
        return d
    d.add(ok, 'ok')
    d.add(one, 'one')
    d.add(perr_m, 'perr')
    d.add(exc_m, 'exc')
    return d


_loop = None


def call(d, is_async, text):
    global _loop
    if not is_async:
        return d.dispatch(text, context=object())
    if _loop is None:
        _loop = asyncio.new_event_loop()
    return _loop.run_until_complete(d.dispatch(text, context=object()))


def run(scn):
    ev = []
    h = zlib.crc32(json.dumps(scn, sort_keys=True).encode())       # variants by content, not by position
    cfg = dict(scn['cfg'], _style='view' if h % 2 else 'func', _perrcls=(h // 2) % 4)
    d = build(cfg, ev)
    text = render(scn['text'])
    try:
        ret = call(d, cfg['kind'] in ('async', 'asyncseq'), text)
    except BaseException as e:  # noqa
        ev.append({'ev': 'Raise', 'type': type(e).__name__})
        return {'scn': scn, 'ev': ev}
    out, leak = a_out(ret)
    ev.append({'ev': 'Return', 'out': out, 'leak': leak})
    # the concrete reply (text and codes) for the pairing of the halves (C11: the SAME response document)
    return {'scn': scn, 'ev': ev, 'reply': ['nothing'] if ret is None else [ret[0], list(ret[1])]}


if __name__ == '__main__':
    if os.environ.get('VERIF_RANDOMIZE'):
        import jsonvals
        jsonvals.randomize(int(os.environ['VERIF_RANDOMIZE']) + hash(os.path.basename(sys.argv[1])) % 1000)
    from _guard import guarded
    json.dump([guarded(run)(s) for s in json.load(open(sys.argv[1]))], open(sys.argv[2], 'w'))
