"""Driver for C13 (a) and (c): request histories / thread pools on ONE dispatcher.  Every single dispatch becomes its own
trace, validated against spec/Dispatcher.tla: its reply may depend on its own text and the configuration only.
usage: history.py SCENARIOS.json TRACES.json"""
import json
import zlib
import os
import sys
import threading

sys.path.insert(0, os.path.dirname(os.path.abspath(__file__)))
import dispatcher as dd  # noqa: E402

A = 'absent'


def RD(j, i, m, p):
    return {'shape': 'obj', 'jsonrpc': j, 'id': i, 'method': m, 'params': p}


NA_DOC = {'shape': 'na', 'jsonrpc': 'na', 'id': 'na', 'method': 'na', 'params': 'na'}


def single(d):
    return {'k': 'single', 'cls': 'na', 'doc': d, 'els': []}


def batch(*els):
    return {'k': 'batch', 'cls': 'na', 'doc': NA_DOC, 'els': list(els)}


CORPUS = [
    single(RD('s_v20', 'i1', 'm_ok', 'a_1')),
    single(RD('s_v20', A, 'm_ok', 'o_a')),
    single(RD('s_v20', 'i2', 'm_unk', A)),
    single(RD('s_v20', 's_1', 'm_one', A)),
    single(RD('s_v20', 'i0', 'm_perr', A)),
    single(RD('s_v20', 'i3', 'm_exc', 'a_1')),
    batch(RD('s_v20', 'i1', 'm_ok', A), RD('s_v20', 'i2', 'm_perr', A), RD('s_v20', A, 'm_exc', A)),
    single(RD('s_v10', 'i1', 'm_ok', A)),
    {'k': 'notjson', 'cls': 'garbage', 'doc': NA_DOC, 'els': []},
    batch(RD('s_v20', 'i1', 'm_ok', A), RD('s_v20', 'i1', 'm_ok', A)),
    batch(RD('s_v20', 'i1', 'm_unk', A), RD('s_v20', 's_empty', 'm_one', A)),
    single(RD('s_v20', 's_1', 'm_ok', 'o_a')),
    # the same method raises ANOTHER code through the same error class as in entry 5 (handlers are looked up per raised code)
    (single(RD('s_v20', 'i0', 'm_perr', A)), {'code': 'c_2001', 'message': 's_b', 'data': A}),
    batch(RD('s_v20', A, 'm_ok', A), RD('s_v20', A, 'm_perr', A)),          # nothing but notifications
]
DEFPERR = {'code': 'i1', 'message': 's_a', 'data': A}
EHKEYS = ['c_m32601', 'c_m32602', 'c_m32000', 'c_2001', 'i1']


def make_cfg(kind):
    by = {k: [] for k in EHKEYS}
    by['c_m32601'] = ['replace']
    by['i1'] = ['identity']
    by['c_m32000'] = ['identity', 'identity']
    by['c_2001'] = ['identity', 'replace']
    return {'kind': kind, 'maxBatch': 'n3', 'mws': ['pass', 'rewriteResp'], 'eh': {'gen': ['identity'], 'by': by},
            'perr': dict(DEFPERR), 'exc': 'ValueError',
            'flavour': 'coro' if kind == 'async' else 'plain'}


class Log:
    """event sink handed to the dispatcher's collaborators; each thread / dispatch writes to its own list"""

    def __init__(self):
        self.local = dd.CtxLocal()

    def append(self, e):
        self.local.cur.append(e)


def nested(cfg, log, idx, sink):
    """the callable m_ok runs: dispatches corpus entry idx on the SAME dispatcher from inside the method (re-entrant use) and
    files that dispatch as a trace of its own; the events of the outer dispatch go on in the outer list afterwards"""
    def restore(outer, perr, used):
        log.local.cur = outer
        dd.CUR.perr = perr
        used.append(1)

    def go(d, is_coro):
        if getattr(log.local, 'depth', 0) >= 1:     # the inner request may address m_ok again: one level only
            async def nop():
                return None
            return nop() if is_coro else None
        outer, perr = log.local.cur, getattr(dd.CUR, 'perr', None)
        log.local.depth = 1
        used = []
        if not is_coro:
            try:
                sink.append(dispatch_one(d, cfg, log, idx, inner=True))
            finally:
                restore(outer, perr, used)
                log.local.depth = 0
            return None

        async def run():
            try:
                sink.append(await dispatch_one_async(d, cfg, log, idx))
            finally:
                restore(outer, perr, used)
                log.local.depth = 0
        return run()
    return go


def _prep(cfg, log, idx):
    ev = []
    log.local.cur = ev
    text = CORPUS[idx - 1]
    perr = DEFPERR
    if isinstance(text, tuple):
        text, perr = text
    cfg = dict(cfg, perr=dict(perr))
    dd.CUR.perr = cfg['perr']
    return ev, text, cfg


def _trace(cfg, text, ev):
    return {'scn': {'cfg': {k: v for k, v in cfg.items() if not k.startswith('_')}, 'text': text}, 'ev': ev}


async def dispatch_one_async(d, cfg, log, idx):
    """the inner dispatch of a coroutine method: awaited on the running loop"""
    ev, text, cfg = _prep(cfg, log, idx)
    try:
        ret = await d.dispatch(dd.render(text), context=object())
    except BaseException as e:  # noqa
        ev.append({'ev': 'Raise', 'type': type(e).__name__})
    else:
        out, leak = dd.a_out(ret)
        ev.append({'ev': 'Return', 'out': out, 'leak': leak})
    return _trace(cfg, text, ev)


def dispatch_one(d, cfg, log, idx, inner=False):
    ev = []
    log.local.cur = ev
    text = CORPUS[idx - 1]
    perr = DEFPERR
    if isinstance(text, tuple):
        text, perr = text
    cfg = dict(cfg, perr=dict(perr))
    dd.CUR.perr = cfg['perr']           # per thread: the error the method raises belongs to the request being dispatched
    try:
        ret = d.dispatch(dd.render(text), context=object()) if inner else dd.call(d, cfg['kind'] in ('async', 'asyncseq'), dd.render(text))
    except BaseException as e:  # noqa
        ev.append({'ev': 'Raise', 'type': type(e).__name__})
    else:
        out, leak = dd.a_out(ret)
        ev.append({'ev': 'Return', 'out': out, 'leak': leak})
    return {'scn': {'cfg': {k: v for k, v in cfg.items() if not k.startswith('_')}, 'text': text}, 'ev': ev}


def run(scn, n):
    traces = []
    if 'hist' in scn:
        cfg = make_cfg('async' if zlib.crc32(json.dumps(scn, sort_keys=True).encode()) % 2 else 'sync')    # by content, not by position
        log = Log()
        h = zlib.crc32(json.dumps(scn, sort_keys=True).encode())
        cfg['_perrcls'] = (h // 2) % 4
        if (h // 6) % 2:
            # re-entrant use (variant by content): every execution of m_ok dispatches another corpus entry on the same
            # dispatcher before it returns; inner and outer dispatches are validated each on its own
            if cfg['kind'] == 'async':
                # an inner batch really suspends the element that made it; Dispatcher.tla describes the elements of one
                # dispatch in sequence (interleavings are AsyncBatch.tla's subject, C10), so the batch runs sequentially here
                cfg['kind'] = 'asyncseq'
            cfg['_inner'] = nested(cfg, log, scn['hist'][(h // 12) % len(scn['hist'])], traces)
        d = dd.build(cfg, log)
        for idx in scn['hist']:
            traces.append(dispatch_one(d, cfg, log, idx))
    else:
        cfg = make_cfg('sync')
        log = Log()
        d = dd.build(cfg, log)
        # the interpreter hands over between threads as often as it can: the first dispatches of the fresh dispatcher overlap
        sys.setswitchinterval(1e-6)
        results = [[] for _ in scn['seqs']]
        barrier = threading.Barrier(len(scn['seqs']))

        def work(k):
            barrier.wait()
            for idx in scn['seqs'][k]:
                results[k].append(dispatch_one(d, cfg, log, idx))
        ts = [threading.Thread(target=work, args=(k,)) for k in range(len(scn['seqs']))]
        for t in ts:
            t.start()
        for t in ts:
            t.join()
        for r in results:
            traces.extend(r)
    return traces


if __name__ == '__main__':
    out = []
    for n, s in enumerate(json.load(open(sys.argv[1]))):
        out.extend(run(s, n))
    json.dump(out, open(sys.argv[2], 'w'))
