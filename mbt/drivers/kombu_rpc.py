"""Driver for spec/AmqpRpc.tla, sequential variant: the real kombu client backend (synchronous: a call blocks in
Connection.drain_events until its reply arrived) and the real kombu server integration over an in-memory broker
(mbt/drivers/fake_amqp/kombu).  Every drain_events() performs the next step of the schedule TLC generated.
usage: kombu_rpc.py SCENARIOS.json TRACES.json"""
import json
import logging
import os
import socket
import sys

sys.path.insert(0, os.path.join(os.path.dirname(os.path.abspath(__file__)), 'fake_amqp'))
import kombu  # noqa: E402  (the stand-in)

import pjrpc  # noqa: E402,F401
from pjrpc.client.backend import kombu as client_backend  # noqa: E402
from pjrpc.common import exceptions  # noqa: E402
from pjrpc.server.integration import kombu as server_integration  # noqa: E402

logging.disable(logging.CRITICAL)
BROKER = kombu.BROKER
JSON_CT = 'application/json'


def run(scn):
    cfg, sched = scn['cfg'], scn['sched']
    BROKER.reset()
    ev, executed, cid_of = [], [], {}
    executor = server_integration.Executor('memory://', queue_name='rpc')

    def ok(tag):
        executed.append(tag)
        return tag

    def err(tag):
        executed.append(tag)
        raise exceptions.JsonRpcError(code=1000, message='failed', data=tag)
    executor.dispatcher.add(ok, 'ok')
    executor.dispatcher.add(err, 'err')
    consumers = executor.get_consumers(kombu.Consumer, None)
    for c in consumers:
        c.__enter__()
    shared = cfg['mode'] == 'shared'
    client = client_backend.Client('memory://', queue_name='rpc', result_queue_name='results' if shared else None)

    def qname(q):
        return 'results' if q == 0 else cid_of.get(q, 'no-such-queue-%s' % q)

    def do_serve():
        q = BROKER.queues.get('rpc') or []
        if not q:
            ev.append({'ev': 'ServeEmpty'})
            return
        head = q[0]
        try:
            call = json.loads(head.body)['params'][0]
        except Exception:
            call = -1
        nexec, nlog = len(executed), len(BROKER.log)
        BROKER.deliver('rpc')
        pubs = BROKER.log[nlog:]
        e = {'ev': 'Serve', 'call': call, 'executed': executed[nexec:] == [call], 'acks': head.acks, 'published': len(pubs) == 1}
        if len(pubs) == 1:
            rk, m = pubs[0][1], pubs[0][2]
            e.update({'same_cid': m.properties.get('correlation_id') == head.properties.get('correlation_id'),
                      'to_reply_queue': rk == head.properties.get('reply_to'), 'ctype_ok': m.content_type == JSON_CT})
        elif pubs:
            e['published_n'] = len(pubs)
        ev.append(e)

    def do_deliver(st):
        got = BROKER.deliver(qname(st['q']))
        ev.append({'ev': 'Deliver', 'q': st['q']} if got is not None else {'ev': 'DeliverImpossible', 'q': st['q']})

    def do_stray(st):
        cid = 'nobody' if st['cid'] == 0 else cid_of.get(st['cid'], 'nobody')
        BROKER.publish('{"jsonrpc": "2.0", "id": 1, "result": "stray"}', qname(st['q']), {'correlation_id': cid},
                       JSON_CT if st['ctype'] == 'json' else 'text/plain')
        ev.append({'ev': 'Stray', 'q': st['q'], 'cid': st['cid'], 'ctype': st['ctype']})

    def step(st):
        if st['op'] == 'serve':
            do_serve()
        elif st['op'] == 'deliver':
            do_deliver(st)
        elif st['op'] == 'stray':
            do_stray(st)
        else:
            ev.append({'ev': 'NestedStart', 'i': st['i']})       # a call was started while another one was blocked: not in the model

    plan = list(sched)

    def pump():
        # what Connection.drain_events does: the next step of the schedule
        if not plan:
            raise socket.timeout('schedule exhausted')
        step(plan.pop(0))

    BROKER.pump = pump
    while plan:
        st = plan.pop(0)
        if st['op'] != 'start':
            step(st)
            continue
        i = st['i']
        c = cfg['calls'][i - 1]
        nlog = len(BROKER.log)
        started = [False]

        def on_publish():
            pubs = [x for x in BROKER.log[nlog:] if x[1] == 'rpc']
            if started[0] or len(pubs) != 1:
                return
            started[0] = True
            m = pubs[0][2]
            cid, rto = m.properties.get('correlation_id'), m.properties.get('reply_to')
            if cid is not None:
                cid_of[i] = cid
            rt = 'none' if rto is None else ('results' if rto == 'results' else ('own' if rto == cid else 'other'))
            ev.append({'ev': 'Start', 'i': i, 'reply_to': rt, 'has_cid': cid is not None, 'ctype_ok': m.content_type == JSON_CT})
        orig_pump = pump

        def pump_logging_start():
            on_publish()
            orig_pump()
        BROKER.pump = pump_logging_start
        try:
            r = client.call(c['beh'], i) if c['kind'] == 'call' else client.notify(c['beh'], i)
            on_publish()
            if c['kind'] == 'notify':
                ev.append({'ev': 'Outcome', 'i': i, 'k': 'nothing' if r is None else 'other', 'of': 0})
            else:
                ev.append({'ev': 'Outcome', 'i': i, 'k': 'value', 'of': r if isinstance(r, int) else -1})
        except exceptions.JsonRpcError as e:
            on_publish()
            ev.append({'ev': 'Outcome', 'i': i, 'k': 'value', 'of': e.data if (e.code == 1000 and isinstance(e.data, int)) else -1})
        except exceptions.DeserializationError:
            on_publish()
            ev.append({'ev': 'Outcome', 'i': i, 'k': 'raise', 'of': 'Deser'})
        except socket.timeout:
            on_publish()
            ev.append({'ev': 'Outcome', 'i': i, 'k': 'raise', 'of': 'Timeout'})
        BROKER.pump = pump
    ev.append({'ev': 'End', 'waiting': 0})
    for c in consumers:
        c.__exit__(None, None, None)
    return {'scn': scn, 'ev': ev}


if __name__ == '__main__':
    from _guard import guarded
    json.dump([guarded(run)(s) for s in json.load(open(sys.argv[1]))], open(sys.argv[2], 'w'))
