"""Driver for spec/Binding.tla: generates a method per abstract signature (plain function, coroutine, or
class-based view method), registers it with the designated context mode, dispatches the abstract params and
records what the body observed.  Also records a DIRECT call on a function with the effective signature
(spec sanity, DESIGN 3.2).   usage: binding.py SCENARIOS.json TRACES.json"""
import asyncio
import json
import logging
import sys

import pjrpc
from pjrpc.server import AsyncDispatcher, Dispatcher, MethodRegistry, ViewMixin

logging.disable(logging.CRITICAL)

DEFAULT = 'DEFAULT'
RET = 'RET_OK'
KEYS = ['p1', 'p2', 'p3', 'p4', 'zz']
NAMES = ['p1', 'p2', 'p3', 'p4']


class Ctx:
    pass


CTX = Ctx()


def a_val(v):
    if v is CTX:
        return 'CTX'
    if isinstance(v, str) and (v in ('v1', 'v2', 'v3', 'v4', 'v5', DEFAULT) or v.startswith('n_')):
        return v
    return 'other:' + type(v).__name__


def param_src(sig):
    parts = []
    seen_po = False
    star = False
    for i, p in enumerate(sig):
        k = p['kind']
        d = '=DEFAULT' if p['dflt'] else ''
        if k != 'PO' and seen_po:
            parts.append('/')
            seen_po = False
        if k == 'PO':
            seen_po = True
            parts.append(p['name'] + d)
        elif k == 'PK':
            parts.append(p['name'] + d)
        elif k == 'VP':
            parts.append('*' + p['name'])
            star = True
        elif k == 'KO':
            if not star:
                parts.append('*')
                star = True
            parts.append(p['name'] + d)
        elif k == 'VK':
            parts.append('**' + p['name'])
    if seen_po:
        parts.append('/')
    return ', '.join(parts)


def observe(sig, loc, vctx):
    rec = {n: 'na' for n in NAMES}
    va = []
    kw = {k: '-' for k in KEYS}
    for p in sig:
        v = loc[p['name']]
        if p['kind'] == 'VP':
            rec[p['name']] = 'VA'
            va = [a_val(x) for x in v]
        elif p['kind'] == 'VK':
            rec[p['name']] = 'KW'
            for k, x in v.items():
                if k in kw:
                    kw[k] = a_val(x) if a_val(x) == 'n_' + k else 'bad'
                else:
                    kw['zz'] = 'bad:extra:' + k
        else:
            rec[p['name']] = a_val(v)
    return {'vctx': vctx, 'rec': rec, 'va': va, 'kw': kw}


_CACHE = {}
_CURRENT = {'log': None}


def _dispatch_log(loc, self_):
    return _CURRENT['log'](loc, self_)


def make(sig, flavour, as_method=False, cached=True):
    """The generated callable is created ONCE per (signature, flavour) and reused by every scenario of this
    process, like a real module-level function registered several times with different context settings."""
    key = (json.dumps(sig), flavour, as_method)
    if cached and key in _CACHE:
        return _CACHE[key]
    names = [p['name'] for p in sig]
    src_params = param_src(sig)
    ns = {'DEFAULT': DEFAULT, '_log': _dispatch_log}
    locs = 'dict(' + ', '.join('%s=%s' % (n, n) for n in names) + ')'
    if as_method:
        src = 'def m(self%s):\n    return _log(%s, self)\n' % (', ' + src_params if src_params else '', locs)
    elif flavour == 'coro':
        src = 'async def m(%s):\n    return _log(%s, None)\n' % (src_params, locs)
    else:
        src = 'def m(%s):\n    return _log(%s, None)\n' % (src_params, locs)
    exec(src, ns)
    _CACHE[key] = (ns['m'], src)
    return _CACHE[key]


def run(scn, loop):
    sig, ctx, flavour, inp = scn['sig'], scn['ctx'], scn['flavour'], scn['inp']
    ev = []
    # ---- params
    if inp['k'] == 'pos':
        params = ['v%d' % (j + 1) for j in range(inp['n'])]
    else:
        params = {k: 'n_' + k for k in KEYS if inp['keys'][k]}
    # ---- spec sanity: direct call on the effective signature
    eff = [p for p in sig if not (ctx['mode'] in ('byname', 'positional') and p['name'] == ctx['name'])]
    box = {}

    def dlog(loc, self_):
        box['obs'] = observe(eff, loc, 'na')
        return RET
    g, _ = make(eff, 'func', cached=False)
    _CURRENT['log'] = dlog
    try:
        if inp['k'] == 'pos':
            g(*params)
        else:
            g(**params)
        d = {'ev': 'Direct', 'v': 'ok'}
        d.update(box['obs'])
        del d['vctx']
    except TypeError:
        d = {'ev': 'Direct', 'v': 'fail', 'rec': {n: 'na' for n in NAMES}, 'va': [], 'kw': {k: '-' for k in KEYS}}
    ev.append(d)

    # ---- the real thing
    def log(loc, self_):
        vctx = 'na'
        if flavour == 'view':
            c = getattr(self_, '_ctx', 'missing')
            vctx = 'CTX' if c is CTX else ('none' if c is None else 'bad')
        e = {'ev': 'Exec'}
        e.update(observe(sig, loc, vctx))
        ev.append(e)
        return RET

    _CURRENT['log'] = log
    is_async = flavour == 'coro'
    disp = AsyncDispatcher() if is_async else Dispatcher()
    target = disp.registry if scn['route'] == 'direct' else MethodRegistry()
    if flavour == 'view':
        m, src = make(sig, flavour, as_method=True)

        class V(ViewMixin):
            def __init__(self, context=None):
                super().__init__()
                self._ctx = context
        V.m = m
        if ctx['mode'] == 'view':
            target.view(V, context='context')
        else:
            target.view(V)
    else:
        m, src = make(sig, flavour)
        if ctx['mode'] == 'none':
            target.add(m, 'm')
        else:
            target.add(m, 'm', context=ctx['name'], positional=ctx['mode'] == 'positional')
    if scn['route'] == 'merged':
        disp.add_methods(target)
    text = json.dumps({'jsonrpc': '2.0', 'id': 1, 'method': 'm', 'params': params})
    try:
        if is_async:
            ret = loop.run_until_complete(disp.dispatch(text, context=CTX))
        else:
            ret = disp.dispatch(text, context=CTX)
    except BaseException as e:  # noqa
        ev.append({'ev': 'Raise', 'type': type(e).__name__})
        return {'scn': scn, 'ev': ev, 'info': src}
    doc = json.loads(ret[0])
    if 'result' in doc:
        r = 'result' if doc['result'] == RET else 'result_changed'
    else:
        code = doc['error'].get('code')
        r = 'c_m' + str(-code) if isinstance(code, int) and code < 0 else 'code:' + str(code)
    ev.append({'ev': 'Reply', 'r': r})
    return {'scn': scn, 'ev': ev, 'info': src}


if __name__ == '__main__':
    loop = asyncio.new_event_loop()
    json.dump([run(s, loop) for s in json.load(open(sys.argv[1]))], open(sys.argv[2], 'w'))
