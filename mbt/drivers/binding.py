"""Driver for spec/Binding.tla: generates a method per abstract signature (plain function, coroutine, or
class-based view method), registers it with the designated context mode, dispatches the abstract params and
records what the body observed.  Also records a DIRECT call on a function with the effective signature
(spec sanity, DESIGN 3.2).   usage: binding.py SCENARIOS.json TRACES.json"""
import asyncio
import inspect
import json
import logging
import sys

import pjrpc
from pjrpc.server import AsyncDispatcher, Dispatcher, MethodRegistry, ViewMixin, validators

logging.disable(logging.CRITICAL)

DEFAULT = 'DEFAULT'
RET = 'RET_OK'
# concrete Python identifiers of the abstract parameter names p1..p4 / the unknown name zz.  They are chosen so that
# each is a substring of the next one (substring / prefix confusions between parameter names are then visible).
# A second scheme uses names that the library's own call chain uses for ITS parameters (a client's named argument must never
# be mistaken for one of those).  The scheme is chosen per scenario by a hash of its content.
SCHEMES = [{'p1': 'x', 'p2': 'xy', 'p3': 'xyz', 'p4': 'wxyz', 'zz': 'zz', 'na': 'na'},
           {'p1': 'signature', 'p2': 'method', 'p3': 'params', 'p4': 'exclude', 'zz': 'kwargs', 'na': 'na'}]
CONC, ABS, KEYS, NAMES = {}, {}, [], []
_SCHEME = [0]


def set_scheme(k):
    _SCHEME[0] = k
    CONC.clear()
    CONC.update(SCHEMES[k])
    ABS.clear()
    ABS.update({v: kk for kk, v in CONC.items()})
    KEYS[:] = [CONC[kk] for kk in ('p1', 'p2', 'p3', 'p4', 'zz')]
    NAMES[:] = [CONC[kk] for kk in ('p1', 'p2', 'p3', 'p4')]


set_scheme(0)


def to_concrete(scn):
    c = json.loads(json.dumps(scn))
    for p in c['sig']:
        p['name'] = CONC[p['name']]
    c['ctx']['name'] = CONC[c['ctx']['name']]
    c['ctx']['xname'] = CONC[c['ctx']['xname']]
    c['inp']['keys'] = {CONC[k]: v for k, v in c['inp']['keys'].items()}
    return c


def to_abstract(ev):
    def val(v):
        return 'n_' + ABS[v[2:]] if isinstance(v, str) and v.startswith('n_') and v[2:] in ABS else v
    out = []
    for e in ev:
        e = dict(e)
        for f in ('rec', 'kw'):
            if f in e:
                e[f] = {ABS.get(k, k): val(v) for k, v in e[f].items()}
        if 'va' in e:
            e['va'] = [val(v) for v in e['va']]
        for f in ('names', 'required'):
            if f in e:
                e[f] = sorted(ABS.get(n, n) for n in e[f])
        out.append(e)
    return out


class _Sentinel:
    """a default value that has no JSON representation (the usual `UNSET = object()` idiom)"""

    def __repr__(self):
        return 'DEFAULT'


SENT = _Sentinel()


class _ListDefault(list):
    """a mutable (unhashable) default value, the usual `tags=[]`"""

    def __repr__(self):
        return 'DEFAULT'


UNHASHABLE = _ListDefault()
_UNH = [False]      # variant: the defaults are one unhashable object


def current_default():
    if _UNH[0]:
        return UNHASHABLE
    return SENT if _SCHEME[0] == 1 else DEFAULT


class Ctx:
    pass


CTX = Ctx()


def a_val(v):
    if v is CTX:
        return 'CTX'
    if v is SENT or isinstance(v, _ListDefault):
        return 'DEFAULT'
    if isinstance(v, str) and (v in ('v1', 'v2', 'v3', 'v4', 'v5', DEFAULT) or v.startswith('n_')):
        return v
    return 'other:' + type(v).__name__


_NOANN = set()
_ANN = [False]      # variant: every ordinary parameter is annotated Optional[int] (with or without a default)


def param_src(sig):
    parts = []
    def ann_of(name):       # (the exclusion predicate of a scenario selects an UNANNOTATED parameter)
        return ': Optional[int]' if _ANN[0] and name not in _NOANN else ''
    seen_po = False
    star = False
    for i, p in enumerate(sig):
        k = p['kind']
        d = '=DEFAULT' if p['dflt'] else ''
        if k != 'PO' and seen_po:
            parts.append('/')
            seen_po = False
        if k == 'PO':
            seen_po = True
            parts.append(p['name'] + ann_of(p['name']) + d)
        elif k == 'PK':
            parts.append(p['name'] + ann_of(p['name']) + d)
        elif k == 'VP':
            parts.append('*' + p['name'])
            star = True
        elif k == 'KO':
            if not star:
                parts.append('*')
                star = True
            parts.append(p['name'] + ann_of(p['name']) + d)
        elif k == 'VK':
            parts.append('**' + p['name'])
    if seen_po:
        parts.append('/')
    return ', '.join(parts)


def observe(sig, loc, vctx):
    rec = {n: 'na' for n in NAMES}
    va = []
    kw = {k: '-' for k in KEYS}
    for p in sig:
        v = loc[p['name']]
        if p['kind'] == 'VP':
            rec[p['name']] = 'VA'
            va = [a_val(x) for x in v]
        elif p['kind'] == 'VK':
            rec[p['name']] = 'KW'
            for k, x in v.items():
                if k in kw:
                    kw[k] = a_val(x) if a_val(x) == 'n_' + k else 'bad'
                else:
                    kw['zz'] = 'bad:extra:' + k
        else:
            rec[p['name']] = a_val(v)
    return {'vctx': vctx, 'rec': rec, 'va': va, 'kw': kw}


_CACHE = {}
_CURRENT = {'log': None}


def _dispatch_log(loc, self_):
    return _CURRENT['log'](loc, self_)


def make(sig, flavour, as_method=False, cached=True):
    """The generated callable is created ONCE per (signature, flavour) and reused by every scenario of this
    process, like a real module-level function registered several times with different context settings."""
    key = (json.dumps(sig), flavour, as_method, _ANN[0])
    if cached and key in _CACHE:
        return _CACHE[key]
    names = [p['name'] for p in sig]
    src_params = param_src(sig)
    ns = {'DEFAULT': current_default(), '_log': _dispatch_log, 'Optional': __import__('typing').Optional}
    locs = 'dict(' + ', '.join('%s=%s' % (n, n) for n in names) + ')'
    if as_method:
        src = 'def m(self%s):\n    return _log(%s, self)\n' % (', ' + src_params if src_params else '', locs)
    elif flavour == 'coro':
        src = 'async def m(%s):\n    return _log(%s, None)\n' % (src_params, locs)
    else:
        src = 'def m(%s):\n    return _log(%s, None)\n' % (src_params, locs)
    exec(src, ns)
    if cached:
        _CACHE[key] = (ns['m'], src)
    return ns['m'], src


def _resolve(doc, node):
    while isinstance(node, dict) and '$ref' in node:
        cur = doc
        for part in node['$ref'].lstrip('#/').split('/'):
            cur = cur[part]
        node = cur
    return node


def doc_events(methods, pred):
    """C17: parameter names / required names the generated OpenAPI request schema and OpenRPC params list publish"""
    from pjrpc.server import specs
    from pjrpc.server.specs import openapi, openrpc
    from pjrpc.server.specs.extractors import pydantic as pex
    out = []

    def m(decoy_a: int, decoy_b: str = 'x'):       # another function exposed under the same name elsewhere
        pass
    decoy = [pjrpc.server.Method(m, 'm')]
    twin = [pjrpc.server.Method(x.method, x.name) for x in methods if type(x) is pjrpc.server.Method and x.context]
    try:
        oa = openapi.OpenAPI(info=openapi.Info(title='t', version='1'), schema_extractor=pex.PydanticSchemaExtractor(exclude_param=pred))
        oa.schema(path='', methods_map={'': decoy})       # the same specification object documented the look-alike before
        if twin:
            oa.schema(path='', methods_map={'': twin})    # ... and the same function under the same name without a context
        doc = json.loads(json.dumps(oa.schema(path='', methods_map={'': methods}), cls=specs.JSONEncoder))
        item = [v for k, v in doc['paths'].items() if k.endswith('#m')][0]
        schema = _resolve(doc, item['post']['requestBody']['content']['application/json']['schema'])
        params = _resolve(doc, schema['properties']['params'])
        out.append({'ev': 'Doc', 'kind': 'openapi', 'names': sorted(params.get('properties', {})), 'required': sorted(params.get('required', []))})
    except Exception as e:
        out.append({'ev': 'DocFail', 'kind': 'openapi', 'exc': type(e).__name__})
    try:
        orpc = openrpc.OpenRPC(info=openrpc.Info(title='t', version='1'), schema_extractor=pex.PydanticSchemaExtractor(exclude_param=pred))
        orpc.schema(path='', methods_map={'': decoy})
        if twin:
            orpc.schema(path='', methods_map={'': twin})
        doc = json.loads(json.dumps(orpc.schema(path='', methods_map={'': methods}), cls=specs.JSONEncoder))
        meth = [x for x in doc['methods'] if x['name'] == 'm'][0]
        out.append({'ev': 'Doc', 'kind': 'openrpc', 'names': sorted(p['name'] for p in meth['params']),
                    'required': sorted(p['name'] for p in meth['params'] if p.get('required'))})
    except Exception as e:
        out.append({'ev': 'DocFail', 'kind': 'openrpc', 'exc': type(e).__name__})
    return out


def run(ascn, loop):
    import zlib
    h = zlib.crc32(json.dumps(ascn, sort_keys=True).encode())
    set_scheme(h % 2)
    _ANN[0] = (h // 8) % 2 == 1
    _UNH[0] = (h // 16) % 3 == 0
    _NOANN.clear()
    _NOANN.add(to_concrete(ascn)['ctx']['xname'])
    scn = to_concrete(ascn)
    sig, ctx, flavour, inp = scn['sig'], scn['ctx'], scn['flavour'], scn['inp']
    ev = []
    # ---- params
    if inp['k'] == 'pos':
        params = ['v%d' % (j + 1) for j in range(inp['n'])]
    else:
        params = {k: 'n_' + k for k in KEYS if inp['keys'][k]}
    # ---- spec sanity: direct call on the effective signature
    eff = [p for p in sig if not ((ctx['mode'] in ('byname', 'positional') and p['name'] == ctx['name']) or p['name'] == ctx['xname'])]
    box = {}

    def dlog(loc, self_):
        box['obs'] = observe(eff, loc, 'na')
        return RET
    g, _ = make(eff, 'func', cached=False)
    _CURRENT['log'] = dlog
    try:
        if inp['k'] == 'pos':
            g(*params)
        else:
            g(**params)
        d = {'ev': 'Direct', 'v': 'ok'}
        d.update(box['obs'])
        del d['vctx']
    except TypeError:
        d = {'ev': 'Direct', 'v': 'fail', 'rec': {n: 'na' for n in NAMES}, 'va': [], 'kw': {k: '-' for k in KEYS}}
    ev.append(d)

    # ---- the real thing
    holder = {}
    static = flavour == 'view' and (h // 4) % 2 == 1       # the view inherits the method as a static method of a plain base class

    def log(loc, self_):
        vctx = 'na'
        if flavour == 'view':
            c = getattr(holder['V'], 'last_ctx', 'missing') if static else getattr(self_, '_ctx', 'missing')
            vctx = 'CTX' if c is CTX else ('none' if c is None else 'bad')
        e = {'ev': 'Exec'}
        e.update(observe(sig, loc, vctx))
        ev.append(e)
        return RET

    _CURRENT['log'] = log
    # the exclusion predicate looks at everything it is given: an unannotated parameter of that name carrying the marker default
    dflt = current_default()
    pred = (lambda name, ann, default: name == ctx['xname'] and ann is inspect.Parameter.empty and (default is dflt or default == dflt)) \
        if ctx['xname'] != 'na' else None
    is_async = flavour == 'coro'
    disp = AsyncDispatcher() if is_async else Dispatcher()
    target = disp.registry if scn['route'] == 'direct' else MethodRegistry()
    if flavour == 'view':
        m, src = make(sig, 'func' if static else flavour, as_method=not static, cached=pred is None)
        if pred:
            m = validators.BaseValidator(exclude_param=pred).validate(m)

        class Handlers:
            pass

        class V(ViewMixin, Handlers):
            def __init__(self, context=None):
                super().__init__()
                self._ctx = context
                type(self).last_ctx = context
        holder['V'] = V
        if static:
            Handlers.m = staticmethod(m)
        else:
            V.m = m
        if ctx['mode'] == 'view':
            # the name under which the view takes the context has nothing to do with the parameters of its methods -
            # also when a method happens to have a parameter of that very name
            target.view(V, context=sig[0]['name'] if (sig and (h // 2) % 2) else 'context')
        else:
            target.view(V)
    else:
        m, src = make(sig, flavour, cached=pred is None)
        if pred:
            m = validators.BaseValidator(exclude_param=pred).validate(m)
        if ctx['mode'] == 'none':
            target.add(m, 'm')
        else:
            target.add(m, 'm', context=ctx['name'], positional=ctx['mode'] == 'positional')
    if scn['route'] == 'merged':
        disp.add_methods(target)
    if scn.get('doc'):
        ev.extend(doc_events(list(disp.registry.values()), pred))
    text = json.dumps({'jsonrpc': '2.0', 'id': 1, 'method': 'm', 'params': params})
    try:
        if is_async:
            ret = loop.run_until_complete(disp.dispatch(text, context=CTX))
        else:
            ret = disp.dispatch(text, context=CTX)
    except BaseException as e:  # noqa
        ev.append({'ev': 'Raise', 'type': type(e).__name__})
        return {'scn': ascn, 'ev': to_abstract(ev), 'info': src}
    doc = json.loads(ret[0])
    if 'result' in doc:
        r = 'result' if doc['result'] == RET else 'result_changed'
    else:
        code = doc['error'].get('code')
        r = 'c_m' + str(-code) if isinstance(code, int) and code < 0 else 'code:' + str(code)
    ev.append({'ev': 'Reply', 'r': r})
    return {'scn': ascn, 'ev': to_abstract(ev), 'info': src}


if __name__ == '__main__':
    loop = asyncio.new_event_loop()
    from _guard import guarded
    json.dump([guarded(run)(s, loop) for s in json.load(open(sys.argv[1]))], open(sys.argv[2], 'w'))
