"""Driver for spec/Retry.tla: a real AbstractClient / AbstractAsyncClient subclass with a scripted transport,
instrumented tracers and recorded (never slept) sleeps.   usage: retry.py SCENARIOS.json TRACES.json"""
import asyncio
import json
import zlib
import logging
import sys
import types

import pjrpc
from pjrpc.client import AbstractAsyncClient, AbstractClient, LoggingTracer, Tracer
from pjrpc.client import retry as retry_mod
from pjrpc.common import exceptions

logging.disable(logging.CRITICAL)


class ConnErr(Exception):
    pass


class SubConnErr(ConnErr):
    pass


class TimeoutErr(Exception):
    pass


class OtherErr(Exception):
    pass


class VerifBaseExc(BaseException):
    pass


EXC = {'exc_listed': ConnErr, 'exc_sub': SubConnErr, 'exc_listed2': TimeoutErr, 'exc_unlisted': OtherErr,
       'base_exc': VerifBaseExc, 'cancelled': asyncio.CancelledError}
# "base_exc" stands for any exception outside the Exception hierarchy: which one is chosen by the content of the scenario
BASE_CLASSES = [VerifBaseExc, KeyboardInterrupt, SystemExit]
CODES = {'err_listed': 2001, 'err_listed2': -32000, 'err_unlisted': 7}


class State:
    def __init__(self, scn):
        self.ev = []
        self.scripts = [list(x) for x in scn['scripts']]
        self.script = self.scripts[0]
        self.n = 0
        self.raised = None
        self.ctx_ids = {}
        self.keep = []
        self.caller_ctx = None
        self.request = None
        self.bystander = None

    def ctx_id(self, c):
        if c is self.caller_ctx and c is not None:
            return 0
        if id(c) not in self.ctx_ids:
            self.ctx_ids[id(c)] = len(self.ctx_ids) + 1
            self.keep.append(c)
        return self.ctx_ids[id(c)]


def serve(st, text, is_notification):
    """scripted transport: returns the response text / None or raises, and logs the Send event"""
    st.n += 1
    st.raised = None
    o = st.script[min(st.n, len(st.script)) - 1] if st.script else 'ok'
    try:
        doc = json.loads(text)
        expect = st.request.to_json()
        doc_ok = doc == json.loads(json.dumps(expect))
    except Exception:
        doc, doc_ok = None, False
    st.ev.append({'ev': 'Send', 'o': o, 'n': st.n, 'notif': bool(is_notification), 'doc_ok': doc_ok})
    if o in EXC:
        st.raised = (st.base_cls if o == 'base_exc' else EXC[o])('scripted ' + o)
        raise st.raised
    if o == 'undecodable':
        return 'this is { not json'
    if o == 'unexpected_body':
        return '{"jsonrpc": "2.0", "id": 99, "result": 1}'
    if is_notification:
        return None
    if o == 'batch_err_listed':
        return json.dumps({'jsonrpc': '2.0', 'id': None, 'error': {'code': 2001, 'message': 'whole batch'}})
    reqs = doc if isinstance(doc, list) else [doc]
    out = []
    for r in reqs:
        if 'id' not in r:
            continue
        rid = r['id']
        if o == 'id_mismatch':
            rid = 'someone-else' if isinstance(doc, dict) else ('%s-x' % rid)
        if o in CODES:
            out.append({'jsonrpc': '2.0', 'id': rid, 'error': {'code': CODES[o], 'message': 'scripted'}})
        else:
            out.append({'jsonrpc': '2.0', 'id': rid, 'result': 'r'})
    return json.dumps(out if isinstance(doc, list) else out[0])


def make_tracer(st, idx, logging_base=False):
    """logging_base: the tracer extends the library's own LoggingTracer (and lets it do its logging first)"""
    base = LoggingTracer if logging_base else Tracer

    main = st

    def of(request):
        # the events of a concurrent bystander request (another request in flight on the same client) go to its own trace
        by = main.bystander
        return by if by is not None and request is by.request else main

    class T(base):
        def on_request_begin(self, trace_context, request):
            super().on_request_begin(trace_context, request)
            st = of(request)
            st.ev.append({'ev': 'Begin', 't': idx, 'ctx': st.ctx_id(trace_context), 'req_same': request is st.request})

        def on_request_end(self, trace_context, request, response):
            super().on_request_end(trace_context, request, response)
            st = of(request)
            st.ev.append({'ev': 'End', 't': idx, 'ctx': st.ctx_id(trace_context),
                          'resp': 'none' if response is None else 'response'})

        def on_error(self, trace_context, request, error):
            super().on_error(trace_context, request, error)
            st = of(request)
            st.ev.append({'ev': 'Error', 't': idx, 'ctx': st.ctx_id(trace_context),
                          'exc_same': st.raised is None or error is st.raised})
    return T()


def make_strategy(x):
    if x['k'] != 'strategy':
        return None
    s = x['s']
    bo = s['bo']
    kw = {'attempts': s['n']}
    if bo['jit']:
        it = iter(bo['jit'])
        kw['jitter'] = lambda: next(it, 0)
    if bo['fam'] == 'periodic':
        b = retry_mod.PeriodicBackoff(interval=bo['a'], **kw)
    elif bo['fam'] == 'exponential':
        b = retry_mod.ExponentialBackoff(base=bo['a'], factor=bo['b'], max_value=None if bo['max'] < 0 else bo['max'], **kw)
    else:
        if bo['max'] == 1:      # the library default cap
            b = retry_mod.FibonacciBackoff(multiplier=bo['a'], **kw)
        else:
            b = retry_mod.FibonacciBackoff(multiplier=bo['a'], max_value=None if bo['max'] < 0 else bo['max'], **kw)
    codes = {'none': None, 'empty': set(), 'one': {2001}, 'several': {2001, -32000}}[s['codes']]
    excs = {'none': None, 'empty': set(), 'one': {ConnErr}, 'several': {ConnErr, TimeoutErr}}[s['excs']]
    return retry_mod.RetryStrategy(backoff=b, codes=codes, exceptions=excs)


def a_delay(d):
    if isinstance(d, float) and d.is_integer():
        return int(d)
    return d if isinstance(d, int) and not isinstance(d, bool) else -1


def classify_response(resp):
    if resp is None:
        return 'ok'
    if isinstance(resp, pjrpc.BatchResponse):
        return 'batch_err_listed' if resp.is_error else 'ok'
    if resp.is_success:
        return 'ok'
    return {v: k for k, v in CODES.items()}.get(resp.error.code, 'other_code')


def classify_exc(e):
    if type(e) in BASE_CLASSES:
        return 'base_exc'
    for k, c in EXC.items():
        if type(e) is c:
            return k
    if isinstance(e, json.JSONDecodeError):
        return 'undecodable'
    if isinstance(e, exceptions.IdentityError):
        return 'id_mismatch'
    if type(e) is exceptions.BaseError:
        return 'unexpected_body'
    return 'other:' + type(e).__name__


def run(scn, loop):
    cfg = scn['cfg']
    st = State(scn)
    is_async = cfg['kind'] == 'async'
    hb = zlib.crc32(json.dumps(dict(scn, cfg={k: v for k, v in cfg.items() if k != 'kind'}), sort_keys=True).encode())
    st.base_cls = BASE_CLASSES[hb % 3]         # the same choice for both halves
    retry_mod.time = types.SimpleNamespace(sleep=lambda d: st.ev.append({'ev': 'Sleep', 'd': a_delay(d)}))

    async def fake_sleep(d):
        st.ev.append({'ev': 'Sleep', 'd': a_delay(d)})
    retry_mod.asyncio = types.SimpleNamespace(sleep=fake_sleep)

    hh = zlib.crc32(json.dumps({k: v for k, v in cfg.items() if k != 'kind'}, sort_keys=True).encode())   # the same for both halves
    tracers = [make_tracer(st, i + 1, logging_base=((hh // 2 + i) % 2 == 1)) for i in range(cfg['tracers'])]
    # a concurrent bystander (variant by content, the same for both halves): while the first attempt of the request is in the
    # transport, ANOTHER request is made on the same client and completes (async: another task; sync: another thread).
    # Its attempt is traced and answered like any other; it is validated as a trace of its own.
    with_by = (hh // 8) % 2 == 1
    sb = None
    if with_by:
        sb = State({'scripts': [['ok']]})
        sb.base_cls = st.base_cls
        sb.request = pjrpc.Request('bystander', [7], id=77)
        st.bystander = sb
    started = []

    def by_done(resp, exc):
        if exc is None:
            sb.ev.append({'ev': 'Return', 'o': classify_response(resp)})
        else:
            sb.ev.append({'ev': 'Raise', 'o': classify_exc(exc), 'same': sb.raised is None or exc is sb.raised})

    if is_async:
        class C(AbstractAsyncClient):
            async def _request(self, request_text, is_notification=False, **kwargs):
                if sb is not None and '"bystander"' in request_text:
                    return serve(sb, request_text, is_notification)
                if sb is not None and not started:
                    started.append(1)

                    async def by():
                        try:
                            by_done(await self.send(sb.request), None)
                        except BaseException as e:  # noqa
                            by_done(None, e)
                    await asyncio.ensure_future(by())
                return serve(st, request_text, is_notification)
    else:
        class C(AbstractClient):
            def _request(self, request_text, is_notification=False, **kwargs):
                if sb is not None and '"bystander"' in request_text:
                    return serve(sb, request_text, is_notification)
                if sb is not None and not started:
                    started.append(1)
                    import threading

                    def by():
                        try:
                            by_done(self.send(sb.request), None)
                        except BaseException as e:  # noqa
                            by_done(None, e)
                    th = threading.Thread(target=by)
                    th.start()
                    th.join()
                return serve(st, request_text, is_notification)
    client = C(tracers=tracers, retry_strategy=make_strategy(cfg['client']))
    kwargs = {}
    if cfg['perreq']['k'] != 'unset':
        kwargs['_retry_strategy'] = make_strategy(cfg['perreq'])
    if cfg['ctxmode'] == 'caller':
        # the caller's context object is the caller's business: half of the time one that takes no attributes
        st.caller_ctx = object() if (hh // 4) % 2 else types.SimpleNamespace(who='caller')
        kwargs['_trace_ctx'] = st.caller_ctx
    if cfg['req'] == 'batch':
        st.request = pjrpc.BatchRequest(pjrpc.Request('m', [1], id=1), pjrpc.Request('n', {'a': 2}), pjrpc.Request('m', [], id='x'))
        call = lambda: client.batch.send(st.request, **kwargs)    # noqa: E731
    else:
        st.request = pjrpc.Request('m', [1], id=None if cfg['req'] == 'notification' else 1)
        call = lambda: client.send(st.request, **kwargs)          # noqa: E731
    in_handler = zlib.crc32(json.dumps({k: v for k, v in cfg.items() if k != 'kind'}, sort_keys=True).encode()) % 2 == 1   # by content (the same for both halves)
    for rnd in range(cfg.get('rounds', 1)):
        if rnd and cfg.get('perreq2', cfg['perreq']) != cfg['perreq']:
            kwargs['_retry_strategy'] = make_strategy(cfg['perreq2'])       # another strategy object for this request
        if rnd:
            # the next request on the SAME client, strategy and tracer objects
            st.ev.append({'ev': 'Again'})
            st.script = st.scripts[rnd]
            st.n = 0
            st.raised = None
            st.ctx_ids = {}
        try:
            if in_handler:
                # the caller makes the request while it is handling an exception of its own (a fallback, a failure report)
                try:
                    raise LookupError('the caller is handling this')
                except LookupError:
                    resp = loop.run_until_complete(call()) if is_async else call()
            else:
                resp = loop.run_until_complete(call()) if is_async else call()
            st.ev.append({'ev': 'Return', 'o': classify_response(resp)})
        except BaseException as e:  # noqa
            st.ev.append({'ev': 'Raise', 'o': classify_exc(e), 'same': st.raised is None or e is st.raised})
    out = [{'scn': scn, 'ev': st.ev}]
    if sb is not None and started:
        unset = {'k': 'unset', 's': {'n': 0, 'codes': 'na', 'excs': 'na', 'bo': {'fam': 'na', 'a': 0, 'b': 0, 'max': -1, 'jit': []}}}
        out.append({'scn': {'cfg': dict(cfg, req='single', perreq=unset, perreq2=unset, ctxmode='default', rounds=1),
                            'scripts': [['ok']], 'bystander': True}, 'ev': sb.ev})
    return out


if __name__ == '__main__':
    loop = asyncio.new_event_loop()
    from _guard import guarded
    traces = []
    for s in json.load(open(sys.argv[1])):
        r = guarded(run)(s, loop)
        traces.extend(r if isinstance(r, list) else [r])
    json.dump(traces, open(sys.argv[2], 'w'))
