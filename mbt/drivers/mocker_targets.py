"""Transports for the mocker driver: the objects PjRpcMocker patches (target = 'mocker_targets.<Class>._request')."""


class SyncClient:
    def __init__(self, endpoint):
        self._endpoint = endpoint

    def _request(self, request_text, is_notification=False, **kwargs):
        return 'REAL-TRANSPORT'


class AsyncClient:
    def __init__(self, endpoint):
        self._endpoint = endpoint

    async def _request(self, request_text, is_notification=False, **kwargs):
        return 'REAL-TRANSPORT'
