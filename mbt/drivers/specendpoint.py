"""Driver for spec/SpecEndpoint.tla: GETs the specification URL of a real aiohttp / flask application twice.
usage: specendpoint.py SCENARIOS.json TRACES.json"""
import asyncio
import json
import logging
import sys
from typing import List, Optional

import pydantic

from pjrpc.server import specs
from pjrpc.server.specs import openapi, openrpc
from pjrpc.server.specs.extractors import pydantic as pex

logging.disable(logging.CRITICAL)


class Model(pydantic.BaseModel):
    x: int


def f1(a: int, b: str = 'x') -> Model:
    """First."""


def f2(items: List[int]) -> List[Model]:
    pass


def f4():
    pass


UI = {'swagger': openapi.SwaggerUI, 'rapidoc': openapi.RapiDoc, 'redoc': openapi.ReDoc}


def make_spec(kind, ui='none'):
    if kind != 'openrpc' and ui != 'none':
        return openapi.OpenAPI(info=openapi.Info(title='t', version='1'), path='/spec.json', openapi='3.1.0' if kind == 'openapi31' else '3.0.3',
                               schema_extractor=pex.PydanticSchemaExtractor(), ui=UI[ui](), ui_path='/ui/')
    if kind == 'openrpc':
        return openrpc.OpenRPC(info=openrpc.Info(title='t', version='1'), path='/spec.json', schema_extractor=pex.PydanticSchemaExtractor())
    return openapi.OpenAPI(info=openapi.Info(title='t', version='1'), path='/spec.json', openapi='3.1.0' if kind == 'openapi31' else '3.0.3',
                           schema_extractor=pex.PydanticSchemaExtractor())


def keys_of(doc, kind, base):
    if kind == 'openrpc':
        return sorted(m['name'] for m in doc.get('methods', []))
    return sorted(('base' + k[len(base):]) if k.startswith(base) else 'bad:' + k for k in doc.get('paths', {}))


def run(scn_wrap, loop):
    s = scn_wrap['scn']
    spec = make_spec(s['kind'], s.get('ui', 'none'))
    base = s['base']
    ev = []

    def early(j):
        if s['endpoints'] == 'main+late':
            doc = json.loads(json.dumps(j.generate_spec(spec, path=base), cls=specs.JSONEncoder))
            ev.append({'ev': 'Early', 'keys': keys_of(doc, s['kind'], base)})
    if s['integ'] == 'flask':
        import flask
        from pjrpc.server.integration import flask as integ
        j = integ.JsonRPC(base, spec=spec)
        j.dispatcher.add(f1)
        j.dispatcher.add(f4)
        early(j)
        if s['endpoints'] in ('main+api', 'main+late'):
            j.add_endpoint('/api').add(f2)
        app = flask.Flask('specendpoint')
        j.init_app(app)
        client = app.test_client()

        def get(path=base + '/spec.json'):
            r = client.get(path)
            return r.status_code, r.headers.get('Content-Type', ''), r.get_data()
        direct = lambda: j.generate_spec(spec, path=base)      # noqa: E731
        closer = None
    else:
        from aiohttp import test_utils
        from pjrpc.server.integration import aiohttp as integ
        j = integ.Application(base, spec=spec)
        j.dispatcher.add(f1)
        j.dispatcher.add(f4)
        early(j)
        if s['endpoints'] in ('main+api', 'main+late'):
            j.add_endpoint('/api').add(f2)

        async def mk():
            c = test_utils.TestClient(test_utils.TestServer(j.app))
            await c.start_server()
            return c
        client = loop.run_until_complete(mk())

        def get(path=base + '/spec.json'):
            async def go():
                async with client.get(path) as r:
                    return r.status, r.headers.get('Content-Type', ''), await r.read()
            return loop.run_until_complete(go())
        direct = lambda: j.generate_spec(spec, path=base)      # noqa: E731
        closer = client
    try:
        for _ in range(2):
            status, ctype, body = get()
            try:
                doc = json.loads(body)
            except ValueError:
                doc = {}
            ref = json.loads(json.dumps(direct(), cls=specs.JSONEncoder))
            ev.append({'ev': 'Get', 'status': status, 'ctype': 'json' if ctype.split(';')[0].strip() == 'application/json' else 'other',
                       'keys': keys_of(doc, s['kind'], base), 'same_as_direct': doc == ref})
        if s.get('ui', 'none') != 'none':
            for which, path in (('slash', base + '/ui/'), ('index', base + '/ui/index.html')):
                status, ctype, body = get(path)
                text = body.decode('utf-8', 'replace')
                ev.append({'ev': 'Ui', 'which': which, 'status': status, 'ctype': 'html' if ctype.split(';')[0].strip() == 'text/html' else 'other',
                           'points_at_spec': (base + '/spec.json') in text})
    finally:
        if closer is not None:
            loop.run_until_complete(closer.close())
    return {'scn': scn_wrap, 'ev': ev}


if __name__ == '__main__':
    loop = asyncio.new_event_loop()
    asyncio.set_event_loop(loop)
    json.dump([run(s, loop) for s in json.load(open(sys.argv[1]))], open(sys.argv[2], 'w'))
