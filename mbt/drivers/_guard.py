"""An exception that escapes pjrpc where a driver expected a normal return is a behaviour of the library, not a failure of the
machinery: it is recorded as the event `Crash`, which no specification allows (the check then reports a VIOLATION naming it).
An exception raised by the driver's own code (no pjrpc frame in the traceback) is re-raised: that is a machinery failure."""
import os
import traceback


def guarded(fn, scn_arg=0):
    def wrapper(*a, **k):
        try:
            return fn(*a, **k)
        except Exception as e:       # noqa
            frames = traceback.extract_tb(e.__traceback__)
            lib = [f for f in frames if (os.sep + 'pjrpc' + os.sep) in f.filename]
            if not lib:
                raise
            where = '%s:%d' % (os.path.basename(lib[-1].filename), lib[-1].lineno)
            return {'scn': a[scn_arg], 'ev': [{'ev': 'Crash', 'exc': type(e).__name__, 'where': where}]}
    return wrapper
