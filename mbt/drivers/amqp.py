"""Driver for spec/AmqpRpc.tla: the real aio_pika client backend and the real aio_pika server integration of pjrpc, connected by
an in-memory broker (mbt/drivers/fake_amqp/aio_pika - the real package is not installed) whose deliveries follow the schedule
TLC generated.   usage: amqp.py SCENARIOS.json TRACES.json"""
import asyncio
import json
import logging
import os
import sys

sys.path.insert(0, os.path.join(os.path.dirname(os.path.abspath(__file__)), 'fake_amqp'))
import aio_pika  # noqa: E402  (the stand-in)
from yarl import URL  # noqa: E402

import pjrpc  # noqa: E402
from pjrpc.client.backend import aio_pika as client_backend  # noqa: E402
from pjrpc.common import exceptions  # noqa: E402
from pjrpc.server.integration import aio_pika as server_integration  # noqa: E402

logging.disable(logging.CRITICAL)
BROKER = aio_pika.BROKER
JSON_CT = 'application/json'


async def quiesce():
    for _ in range(12):
        await asyncio.sleep(0)


def pending(client):
    return len(getattr(client, '_futures', {}))


async def run_async(scn):
    cfg, sched = scn['cfg'], scn['sched']
    BROKER.reset()
    ev = []
    executed = []

    executor = server_integration.Executor(URL('amqp://broker/'), rx_queue_name='rpc')

    def ok(tag):
        executed.append(tag)
        return tag

    def err(tag):
        executed.append(tag)
        raise exceptions.JsonRpcError(code=1000, message='failed', data=tag)
    executor.dispatcher.add(ok, 'ok')
    executor.dispatcher.add(err, 'err')
    await executor.start()
    shared = cfg['mode'] == 'shared'
    client = client_backend.Client(URL('amqp://broker/'), queue_name='rpc', result_queue_name='results' if shared else None)
    await client.connect()
    tasks, reported, cid_of = {}, set(), {}

    def qname(q):
        return 'results' if q == 0 else cid_of.get(q, 'no-such-queue-%s' % q)

    def outcomes():
        for i in sorted(tasks):
            t = tasks[i]
            if i in reported or not t.done():
                continue
            reported.add(i)
            if t.cancelled():
                ev.append({'ev': 'Outcome', 'i': i, 'k': 'raise', 'of': 'Cancelled'})
                continue
            e = t.exception()
            if e is None:
                r = t.result()
                if cfg['calls'][i - 1]['kind'] == 'notify':
                    ev.append({'ev': 'Outcome', 'i': i, 'k': 'nothing' if r is None else 'other', 'of': 0})
                else:
                    ev.append({'ev': 'Outcome', 'i': i, 'k': 'value', 'of': r if isinstance(r, int) else -1})
            elif isinstance(e, exceptions.JsonRpcError) and e.code == 1000:
                ev.append({'ev': 'Outcome', 'i': i, 'k': 'value', 'of': e.data if isinstance(e.data, int) else -1})
            elif isinstance(e, exceptions.DeserializationError):
                ev.append({'ev': 'Outcome', 'i': i, 'k': 'raise', 'of': 'Deser'})
            elif isinstance(e, asyncio.CancelledError):
                ev.append({'ev': 'Outcome', 'i': i, 'k': 'raise', 'of': 'Cancelled'})
            else:
                ev.append({'ev': 'Outcome', 'i': i, 'k': 'raise', 'of': 'other:' + type(e).__name__})

    for st in sched:
        op = st['op']
        nlog = len(BROKER.log)
        if op == 'start':
            i = st['i']
            c = cfg['calls'][i - 1]
            coro = client.call(c['beh'], i) if c['kind'] == 'call' else client.notify(c['beh'], i)
            tasks[i] = asyncio.ensure_future(coro)
            await quiesce()
            pubs = [x for x in BROKER.log[nlog:] if x[1] == 'rpc']
            if len(pubs) != 1:
                ev.append({'ev': 'StartPublished', 'i': i, 'n': len(pubs)})
                break
            m = pubs[0][2]
            if m.correlation_id is not None:
                cid_of[i] = m.correlation_id
            rt = 'none' if m.reply_to is None else ('results' if m.reply_to == 'results' else ('own' if m.reply_to == m.correlation_id else 'other'))
            ev.append({'ev': 'Start', 'i': i, 'reply_to': rt, 'has_cid': m.correlation_id is not None,
                       'ctype_ok': m.content_type == JSON_CT, 'pending': pending(client)})
        elif op == 'serve':
            q = BROKER.queues.get('rpc') or []
            if not q:
                ev.append({'ev': 'ServeEmpty'})
                break
            head = q[0]
            try:
                call = json.loads(head.body)['params'][0]
            except Exception:
                call = -1
            nexec = len(executed)
            BROKER.deliver('rpc')
            await quiesce()
            pubs = BROKER.log[nlog:]
            e = {'ev': 'Serve', 'call': call, 'executed': executed[nexec:] == [call], 'acks': head.acks, 'published': len(pubs) == 1}
            if len(pubs) == 1:
                rk, m = pubs[0][1], pubs[0][2]
                e.update({'same_cid': m.correlation_id == head.correlation_id, 'to_reply_queue': rk == head.reply_to, 'ctype_ok': m.content_type == JSON_CT,
                          'to_nowhere': rk == '' and BROKER.consumers.get('') is None})
            elif pubs:
                e['published_n'] = len(pubs)
            ev.append(e)
        elif op == 'deliver':
            got = BROKER.deliver(qname(st['q']))
            await quiesce()
            if got is None:
                ev.append({'ev': 'DeliverImpossible', 'q': st['q']})
                break
            ev.append({'ev': 'Deliver', 'q': st['q'], 'pending': pending(client)})
        elif op == 'stray':
            cid = 'nobody' if st['cid'] == 0 else cid_of.get(st['cid'], 'nobody')
            BROKER.publish(aio_pika.Message(body=b'{"jsonrpc": "2.0", "id": 1, "result": "stray"}', correlation_id=cid,
                                            content_type=JSON_CT if st['ctype'] == 'json' else 'text/plain'), qname(st['q']))
            ev.append({'ev': 'Stray', 'q': st['q'], 'cid': st['cid'], 'ctype': st['ctype']})
        elif op == 'foreign':
            # another producer: a call that names no reply queue, or bytes that are not text
            body = b'\xff\xfe\x00garbage' if st['ctype'] == 'garbage' else json.dumps({'jsonrpc': '2.0', 'id': 77, 'method': 'ok', 'params': [0]}).encode()
            BROKER.publish(aio_pika.Message(body=body, correlation_id='foreign-1', content_type=JSON_CT), 'rpc')
            ev.append({'ev': 'Foreign', 'k': st['ctype']})
        elif op == 'close':
            await client.close()
            await quiesce()
            ev.append({'ev': 'Close', 'pending': sum(1 for f in getattr(client, '_futures', {}).values() if not f.done())})
        outcomes()
    ev.append({'ev': 'End', 'waiting': sum(1 for t in tasks.values() if not t.done()), 'pending': pending(client)})
    for t in tasks.values():
        if not t.done():
            t.cancel()
    await asyncio.gather(*tasks.values(), return_exceptions=True)
    return ev


def main():
    scns = json.load(open(sys.argv[1]))
    loop = asyncio.new_event_loop()
    traces = [{'scn': s, 'ev': loop.run_until_complete(run_async(s))} for s in scns]
    json.dump(traces, open(sys.argv[2], 'w'))


if __name__ == '__main__':
    main()
