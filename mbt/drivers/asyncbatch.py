"""Driver for spec/AsyncBatch.tla: serves a batch with the real AsyncDispatcher on an asyncio loop whose
interleaving is dictated by the schedule TLC generated (driver-owned futures = suspension points).
usage: asyncbatch.py SCENARIOS.json TRACES.json"""
import asyncio
import json
import logging
import sys

import pjrpc
from pjrpc.common import exceptions
from pjrpc.server import AsyncDispatcher, ViewMixin

logging.disable(logging.CRITICAL)


async def quiesce():
    for _ in range(25):
        await asyncio.sleep(0)


async def run_async(scn):
    ev = []
    pending = {}
    elems = scn['elems']

    def tag_of(request):
        try:
            return int(request.params[0])
        except Exception:
            return -1

    async def gates(tag, n):
        for _ in range(n):
            fut = asyncio.get_running_loop().create_future()
            pending[tag] = fut
            ev.append({'ev': 'Susp', 'tag': tag})
            await fut

    async def ok(tag):
        ev.append({'ev': 'Exec', 'tag': tag})
        await gates(tag, elems[tag - 1]['meth'])
        return tag

    async def fail(tag):
        ev.append({'ev': 'Exec', 'tag': tag})
        await gates(tag, elems[tag - 1]['meth'])
        raise exceptions.JsonRpcError(code=1000, message='failed', data=tag)

    async def fail2(tag):
        ev.append({'ev': 'Exec', 'tag': tag})
        await gates(tag, elems[tag - 1]['meth'])
        raise exceptions.JsonRpcError(code=1001, message='failed too', data=tag)

    class V(ViewMixin):
        """class based view: per-request state lives on the instance across suspension points"""

        def __init__(self, context=None):
            super().__init__()
            self.context = context

        async def view(self, tag):
            self.current = tag
            ev.append({'ev': 'Exec', 'tag': tag})
            await gates(tag, elems[tag - 1]['meth'])
            return self.current

    class V0(ViewMixin):
        """a view registered WITHOUT a context: still one instance per request"""

        async def view0(self, tag):
            self.current = tag
            ev.append({'ev': 'Exec', 'tag': tag})
            await gates(tag, elems[tag - 1]['meth'])
            return self.current

    def plain(tag):
        ev.append({'ev': 'Exec', 'tag': tag})
        return tag

    async def probe(request, context, handler):
        tag = tag_of(request)
        ev.append({'ev': 'Enter', 'tag': tag})
        await gates(tag, elems[tag - 1]['pre'])
        resp = await handler(request, context)
        await gates(tag, elems[tag - 1]['post'])
        ev.append({'ev': 'Done', 'tag': tag})
        return resp

    async def eh(request, context, error):
        tag = tag_of(request)
        ev.append({'ev': 'Eh', 'tag': tag})
        await gates(tag, elems[tag - 1]['eh'])
        return error

    async def eh2(request, context, error):
        ev.append({'ev': 'Eh2', 'tag': tag_of(request)})
        return error

    def eager(request, context, handler):
        """a middleware written as a plain function that starts the rest of the chain at once and hands back the future"""
        return asyncio.ensure_future(handler(request, context))

    d = AsyncDispatcher(middlewares=[eager, probe] if scn.get('eager') else [probe], error_handlers={None: [eh], 1000: [eh2]}, concurrent_batch=scn['concurrent'])
    d.add(fail2, 'fail2')
    d.registry.view(V, context='context')
    d.registry.view(V0)
    d.add(ok, 'ok')
    d.add(fail, 'fail')
    d.add(plain, 'plain')
    batch = []
    for i, e in enumerate(elems, 1):
        r = {'jsonrpc': '2.0', 'method': e['kind'], 'params': [i]}
        if not e['notif']:
            r['id'] = i
        batch.append(r)
    def on_return(t):
        """logged the moment dispatch() returns - not when the driver gets round to looking"""
        if t.cancelled():
            return
        try:
            ret = t.result()
        except BaseException as e:  # noqa
            ev.append({'ev': 'Raise', 'type': type(e).__name__, 'tag': 0})
            return
        out = []
        if ret is not None:
            doc = json.loads(ret[0])
            for o in (doc if isinstance(doc, list) else [doc]):
                rid = o.get('id')
                if 'result' in o:
                    out.append({'id': rid if isinstance(rid, int) else -1, 'body': 'result', 'val': o['result'] if isinstance(o['result'], int) else -1})
                else:
                    data = (o.get('error') or {}).get('data')
                    out.append({'id': rid if isinstance(rid, int) else -1, 'body': 'error', 'val': data if isinstance(data, int) else -1})
        ev.append({'ev': 'Return', 'out': out})

    task = asyncio.ensure_future(d.dispatch(json.dumps(batch), context={'request': 'shared by the whole batch'}))
    task.add_done_callback(on_return)
    await quiesce()
    for tag in scn['sched']:
        fut = pending.pop(tag, None)
        if fut is None or fut.done():
            ev.append({'ev': 'ReleaseFailed', 'tag': tag})
            break
        ev.append({'ev': 'Release', 'tag': tag})
        fut.set_result(None)
        await quiesce()
    if not task.done():
        ev.append({'ev': 'Stuck', 'tag': 0})
        task.cancel()
        for f in pending.values():
            f.cancel()
        try:
            await task
        except BaseException:
            pass
    # whatever the library left running in the background is not awaited by anybody: stop it
    for t in asyncio.all_tasks():
        if t is not asyncio.current_task() and not t.done():
            ev.append({'ev': 'LeftRunning', 'tag': 0})
            t.cancel()
    return ev


def main():
    scns = json.load(open(sys.argv[1]))
    loop = asyncio.new_event_loop()
    traces = []
    for s in scns:
        traces.append({'scn': s, 'ev': loop.run_until_complete(run_async(s))})
        if not s['concurrent'] and 'eager' not in s:
            # sequential mode again, behind an outermost plain-function middleware that schedules its handler eagerly
            s2 = dict(s, eager=True)
            traces.append({'scn': s2, 'ev': loop.run_until_complete(run_async(s2))})
    json.dump(traces, open(sys.argv[2], 'w'))


if __name__ == '__main__':
    main()
