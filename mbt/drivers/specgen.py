"""Driver for spec/SpecGen.tla: builds annotated functions (with possibly shared `errors` lists), generates the OpenAPI /
OpenRPC document three times, projects every document onto the abstract entries, snapshots the user's objects before / after
and has the documents judged against the official meta-schemas (mbt/metacheck.py under python3-vt).
usage: specgen.py SCENARIOS.json TRACES.json"""
import copy
import json
import logging
import os
import subprocess
import sys
import tempfile
from typing import List, Optional

import pydantic

import pjrpc
from pjrpc.common import exceptions
from pjrpc.server import Method, specs
from pjrpc.server.specs import openapi, openrpc
from pjrpc.server.specs.extractors import docstring as dex
from pjrpc.server.specs.extractors import pydantic as pex

logging.disable(logging.CRITICAL)
HERE = os.path.dirname(os.path.abspath(__file__))


class E2001own(exceptions.JsonRpcError):
    """another error class with the code of E2001 (a method's own errors list names it; defined first: E2001 stays the class
    registered for the code)"""
    code = 2001
    message = 'first error (own)'


class E2001(exceptions.JsonRpcError):
    code = 2001
    message = 'first error'


class E2002(exceptions.JsonRpcError):
    code = 2002
    message = 'second error'


class Model(pydantic.BaseModel):
    x: int
    y: Optional[str] = None


def make_functions():
    def f1(a: int, b: str = 'x') -> Model:
        """Does the first thing.

        :param a: the a
        :param b: the b
        :raises E2002: when it goes wrong
        :return: a model
        """

    def f2(items: List[int], m: Model) -> List[Model]:
        pass

    def f3(ctx, flag: bool = False, *, opt: Optional[int] = None) -> None:
        """Third.

        :raises E2001: always
        """

    def f4():
        pass
    return {'f1': f1, 'f2': f2, 'f3': f3, 'f4': f4}


def make_f5():
    """a method whose error class does not exist before this is called (plan "grow": defined between two generations)"""
    class E2003(exceptions.JsonRpcError):
        code = 2003
        message = 'third error'

    def f5():
        """Fifth.

        :raises E2003: late
        """
    return f5


def extractor(name, user_extra=None):
    """user_extra: a mapping of the user's, handed to the pydantic extractor as model configuration (json_schema_extra)"""
    kw = {} if user_extra is None else {'json_schema_extra': user_extra}
    return {'base': [], 'pyd': [pex.PydanticSchemaExtractor(**kw)], 'doc': [dex.DocstringSchemaExtractor()],
            'doc+pyd': [dex.DocstringSchemaExtractor(), pex.PydanticSchemaExtractor(**kw)]}[name]


def snapshot(objs):
    return json.dumps(objs, default=lambda o: getattr(o, '__name__', None) or repr(o), sort_keys=True)


def walk(node, fn):
    if isinstance(node, dict):
        for k, v in node.items():
            fn(k, v)
            walk(v, fn)
    elif isinstance(node, list):
        for v in node:
            walk(v, fn)


def resolve(doc, node):
    seen = 0
    while isinstance(node, dict) and '$ref' in node and seen < 10:
        cur = doc
        try:
            for part in node['$ref'][2:].split('/'):
                cur = cur[part]
        except (KeyError, TypeError):
            return {}
        node = cur
        seen += 1
    return node if isinstance(node, dict) else {}


MESSAGES = {2001: 'first error', 2002: 'second error', 2003: 'third error'}


def allowed_messages(m):
    """the texts of the error classes method m itself lists or names in its docstring"""
    if m is None:
        return set()
    own = {'shared': ['first error'], 'own': ['first error (own)'], 'own2': ['first error', 'second error']}.get(m['errs'], [])
    return set(own) | {'second error' if m['fn'] == 'f1' else None, 'first error' if m['fn'] == 'f3' else None,
                       'third error' if m['fn'] == 'f5' else None} - {None}


def errtext_of(msgs, m):
    return 'own' if set(msgs) <= allowed_messages(m) else 'foreign'


def project_item(doc, item, msgs=None):
    """error codes and component names reachable from a path item (following local $refs transitively); msgs collects the
    message texts documented next to a code"""
    codes, names, seen = set(), set(), set()

    def visit(node):
        if isinstance(node, dict):
            c = node.get('code')
            if isinstance(c, dict):
                if isinstance(c.get('const'), int):
                    codes.add(c['const'])
                if isinstance(c.get('enum'), list):
                    codes.update(x for x in c['enum'] if isinstance(x, int))
                t = node.get('message')
                if msgs is not None and isinstance(t, dict) and ('const' in c or 'enum' in c):
                    if isinstance(t.get('const'), str):
                        msgs.append(t['const'])
                    msgs.extend(x for x in t.get('enum', []) if isinstance(x, str))
            r = node.get('$ref')
            if isinstance(r, str) and r.startswith('#/components/schemas/') and r not in seen:
                seen.add(r)
                names.add(r.rsplit('/', 1)[-1])
                visit(resolve(doc, {'$ref': r}))
            for v in node.values():
                visit(v)
        elif isinstance(node, list):
            for v in node:
                visit(v)
    visit(item)
    if not names:
        cp = 'na'
    elif all(n.startswith('P_') for n in names):
        cp = 'P_'
    elif not any(n.startswith('P_') for n in names):
        cp = 'none'
    else:
        cp = 'mixed'
    return codes, cp


def result_kind(doc, schema):
    s = resolve(doc, schema)
    for _ in range(4):
        if isinstance(s, dict) and '$ref' in s:
            s = resolve(doc, s)
        else:
            break
    if not isinstance(s, dict):
        return 'other'
    if s.get('type') == 'array':
        return 'list'
    if s.get('type') == 'null':
        return 'null'
    if s.get('type') == 'object' and 'x' in s.get('properties', {}):
        return 'model'
    if not [k for k in s if k not in ('title', 'description') and not k.startswith('x-')]:
        return 'any'
    return 'other'


def success_result_schema(doc, op):
    schema = resolve(doc, op.get('responses', {}).get('200', {}).get('content', {}).get('application/json', {}).get('schema', {}))
    for branch in [schema] + schema.get('anyOf', []) + schema.get('oneOf', []):
        b = resolve(doc, branch)
        if 'result' in b.get('properties', {}):
            return b['properties']['result']
    return None


BY_EXPOSED = {}
DOC_PREFIX = {'f1': 'Does the first thing', 'f3': 'Third', 'f5': 'Fifth'}


def marker_of(m):
    return '%s.%s.%s' % (m['fn'], m['ep'], m['name'])


def full_meta(is_rpc, mk):
    """the method's own free-text annotations, every value carrying the method's marker"""
    if is_rpc:
        return dict(summary='SUM:' + mk, description='DESC:' + mk, deprecated=True,
                    examples=[openrpc.MethodExample(name='ex:' + mk, params=[openrpc.ExampleObject(value='P:' + mk, name='p')],
                                                    result=openrpc.ExampleObject(value='R:' + mk, name='r'))],
                    external_docs=openrpc.ExternalDocumentation(url='http://docs/' + mk),
                    servers=[openrpc.Server(name='srv', url='http://srv/' + mk)])
    return dict(summary='SUM:' + mk, description='DESC:' + mk, deprecated=True,
                examples=[openapi.MethodExample(params={'p': 'P:' + mk}, result='R:' + mk, summary='ex:' + mk)],
                external_docs=openapi.ExternalDocumentation(url='http://docs/' + mk),
                servers=[openapi.Server(url='http://srv/' + mk)], security=[{'sec:' + mk: []}])


def schemas_meta(is_rpc, mk):
    if is_rpc:
        return dict(params_schema=[openrpc.ContentDescriptor(name='p', schema={'type': 'integer'}, summary='PS:' + mk)],
                    result_schema=openrpc.ContentDescriptor(name='result', schema={'type': 'string'}, summary='RS:' + mk))
    # (the user may write sets where the document has arrays: the library turns them into lists)
    return dict(params_schema={'p': {'type': 'integer', 'title': 'PS:' + mk, 'enum': {7}}},
                result_schema={'type': 'string', 'title': 'RS:' + mk, 'enum': {'only'}})


def classify(value, own, docprefix=None):
    if value is None:
        return 'absent'
    if value == own:
        return 'own_ann'
    if docprefix and isinstance(value, str) and value.startswith(docprefix) and len(value) <= len(docprefix) + 1:
        return 'own_doc'
    return 'foreign'


def dep_class(v):
    return 'absent' if v is None else ('true' if v is True else ('false' if v is False else 'foreign'))


def facets_openapi(op, m, name):
    if m is None:
        return {k: 'foreign' for k in ('summary', 'description', 'deprecated', 'examples', 'servers', 'extdocs', 'security')}
    mk = marker_of(m)
    dp = DOC_PREFIX.get(m['fn'])
    media = op.get('requestBody', {}).get('content', {}).get('application/json', {})
    rmedia = op.get('responses', {}).get('200', {}).get('content', {}).get('application/json', {})
    rq, rs = media.get('examples'), rmedia.get('examples')
    if rq is None and rs is None:
        ex = 'absent'
    elif (isinstance(rq, dict) and isinstance(rs, dict) and list(rq) == ['ex:' + mk] and list(rs) == ['ex:' + mk]
          and rq['ex:' + mk].get('value', {}).get('method') == name and rq['ex:' + mk]['value'].get('params') == {'p': 'P:' + mk}
          and rs['ex:' + mk].get('value', {}).get('result') == 'R:' + mk):
        ex = 'own_ann'
    else:
        ex = 'foreign'
    servers = op.get('servers')
    return {'summary': classify(op.get('summary'), 'SUM:' + mk, dp), 'description': classify(op.get('description'), 'DESC:' + mk, dp),
            'deprecated': dep_class(op.get('deprecated')), 'examples': ex,
            'servers': classify(None if servers is None else [x.get('url') for x in servers], ['http://srv/' + mk]),
            'extdocs': classify((op.get('externalDocs') or {}).get('url'), 'http://docs/' + mk),
            'security': classify(op.get('security'), [{'sec:' + mk: []}])}


def facets_openrpc(me, m):
    if m is None:
        return {k: 'foreign' for k in ('summary', 'description', 'deprecated', 'examples', 'servers', 'extdocs', 'security')}
    mk = marker_of(m)
    dp = DOC_PREFIX.get(m['fn'])
    exs = me.get('examples')
    if exs is None:
        ex = 'absent'
    elif (isinstance(exs, list) and len(exs) == 1 and exs[0].get('name') == 'ex:' + mk
          and [x.get('value') for x in exs[0].get('params', [])] == ['P:' + mk] and exs[0].get('result', {}).get('value') == 'R:' + mk):
        ex = 'own_ann'
    else:
        ex = 'foreign'
    servers = me.get('servers')
    return {'summary': classify(me.get('summary'), 'SUM:' + mk, dp), 'description': classify(me.get('description'), 'DESC:' + mk, dp),
            'deprecated': dep_class(me.get('deprecated')), 'examples': ex,
            'servers': classify(None if servers is None else [x.get('url') for x in servers], ['http://srv/' + mk]),
            'extdocs': classify((me.get('externalDocs') or {}).get('url'), 'http://docs/' + mk), 'security': 'absent'}


def explicit_class(title, prefix, mk):
    """an explicit (annotated) schema is recognised by its title / summary marker"""
    if isinstance(title, str) and title.startswith(prefix):
        return 'explicit_own' if title == prefix + mk else 'explicit_foreign'
    return None


def project_openapi(doc, scn, path):
    entries = []
    for key, item in doc.get('paths', {}).items():
        p, _, name = key.rpartition('#')
        rest = p[len(path):] if p.startswith(path) else 'bad:' + p
        ep = {'': 'root', '/api': 'api'}.get(rest, 'bad:' + rest)
        op = item.get('post', {})
        msgs = []
        codes, cp = project_item(doc, item, msgs)
        schema = resolve(doc, op.get('requestBody', {}).get('content', {}).get('application/json', {}).get('schema', {}))
        params = resolve(doc, schema.get('properties', {}).get('params', {}))
        m = next((x for x in scn['methods'] if (x['fn'] if x['name'] == 'own' else x['name']) == name and x['ep'] == ep), None)
        rs = success_result_schema(doc, op)
        req_schema = resolve(doc, op.get('requestBody', {}).get('content', {}).get('application/json', {}).get('schema', {}))
        mprop = resolve(doc, req_schema.get('properties', {}).get('method', {})) if req_schema else {}
        named = [mprop.get('const')] if 'const' in mprop else list(mprop.get('enum', []))
        reqname = 'na' if not named else ('own' if named == [name] else 'other:%s' % named)
        ptitle = resolve(doc, resolve(doc, req_schema.get('properties', {}).get('params', {})).get('properties', {}).get('p', {})).get('title') if req_schema else None
        pcls = explicit_class(ptitle, 'PS:', marker_of(m)) if m else None
        if pcls == 'explicit_foreign':
            reqname = 'other:params of another method'
        rcls = explicit_class(resolve(doc, rs).get('title') if rs is not None else None, 'RS:', marker_of(m)) if m else None
        entries.append({'fn': m['fn'] if m else 'unknown:' + name, 'name': m['name'] if m else 'unknown', 'ep': ep,
                        'meta': facets_openapi(op, m, name),
                        'result': rcls or (result_kind(doc, rs) if (scn['extractor'] == 'pyd' and rs is not None) else 'na'),
                        'reqname': reqname, 'errors': sorted(codes), 'errtext': errtext_of(msgs, m), 'tags': (op.get('tags') or ['none'])[0] if len(op.get('tags') or ['x']) == 1 else 'many',
                        'cpref': cp if (scn['extractor'] == 'pyd' and not (m and m.get('meta') == 'schemas')) else 'na'})
    return entries


def project_openrpc(doc, scn):
    entries = []
    for m in doc.get('methods', []):
        tags = [t.get('name') for t in m.get('tags', [])]
        sm = next((x for x in scn['methods'] if (x['fn'] if x['name'] == 'own' else x['name']) == m.get('name') and x['ep'] == 'root'), None)
        rcls = explicit_class(m.get('result', {}).get('summary'), 'RS:', marker_of(sm)) if sm else None
        pcls = [explicit_class(p.get('summary'), 'PS:', marker_of(sm)) for p in m.get('params', [])] if sm else []
        if 'explicit_foreign' in pcls:
            rcls = 'explicit_foreign'
        entries.append({'fn': sm['fn'] if sm else 'unknown:%s' % m.get('name'), 'name': sm['name'] if sm else 'unknown', 'ep': 'root',
                        'meta': facets_openrpc(m, sm),
                        'result': rcls or (result_kind(doc, m.get('result', {}).get('schema', {})) if scn['extractor'] == 'pyd' else 'na'),
                        'reqname': 'na', 'errors': sorted(e.get('code') for e in m.get('errors', [])),
                        'errtext': errtext_of([e.get('message') for e in m.get('errors', [])], sm),
                        'tags': tags[0] if len(tags) == 1 else ('none' if not tags else 'many'),
                        'cpref': 'na'})
    return entries


def run(scn_wrap, docs_out):
    scn = scn_wrap['scn']
    fns = make_functions()
    is_rpc = scn['kind'] == 'openrpc'
    shared_errs = [openrpc.Error(code=2001, message='first error')] if is_rpc else [E2001]
    user_objs = []
    methods_map = {'': [], '/api': []}
    order = []      # registration order = scenario order

    def build_method(m):
        f = make_f5() if m['fn'] == 'f5' else make_functions()[m['fn']]        # a fresh function object per registered method
        kw = {}
        if m['errs'] == 'shared':
            kw['errors'] = shared_errs
        elif m['errs'] == 'own':
            kw['errors'] = [openrpc.Error(code=2001, message='first error (own)')] if is_rpc else [E2001own]
        elif m['errs'] == 'own2':
            kw['errors'] = ([openrpc.Error(code=2001, message='first error'), openrpc.Error(code=2002, message='second error')]
                            if is_rpc else [E2001, E2002])
        if m['tags'] == 't1':
            kw['tags'] = [openrpc.Tag(name='t1')] if is_rpc else ['t1']
        if m['cpref'] == 'P_' and not is_rpc:
            kw['component_name_prefix'] = 'P_'
        if m.get('meta') == 'full':
            kw.update(full_meta(is_rpc, marker_of(m)))
        elif m.get('meta') == 'schemas':
            kw.update(schemas_meta(is_rpc, marker_of(m)))
        if kw:
            f = (openrpc.annotate(**kw) if is_rpc else openapi.annotate(**kw))(f)
        user_objs.append({'errors': kw.get('errors'), 'tags': kw.get('tags'), 'meta': getattr(f, '__pjrpc_meta__', None)})
        key = '' if m['ep'] == 'root' else '/api'
        meth = Method(f, m['fn'] if m['name'] == 'own' else m['name'], context='ctx' if m['fn'] == 'f3' else None)
        methods_map[key].append(meth)
        order.append((key, meth))

    deferred = None
    for j, m in enumerate(scn['methods']):
        if scn.get('plan') == 'grow' and j == len(scn['methods']) - 1:
            deferred = m        # this method (and the error class it raises) comes into being after the first generation
        else:
            build_method(m)
    import zlib
    user_extra = {'x-verif': ['the user owns this mapping']} if zlib.crc32(json.dumps(scn, sort_keys=True).encode()) % 2 else None
    if user_extra is not None:
        user_objs.append({'extractor_config': user_extra})

    def build_spec():
        ex = extractor(scn['extractor'], user_extra)
        if is_rpc:
            return openrpc.OpenRPC(info=openrpc.Info(title='t', version='1'), schema_extractor=ex[0] if ex else None)
        return openapi.OpenAPI(info=openapi.Info(title='t', version='1'), openapi='3.1.0' if scn['kind'] == 'openapi31' else '3.0.3',
                               schema_extractors=ex, error_http_status_map={2001: 400, 2002: 400} if scn.get('statusmap') == 'map' else {})
    spec = build_spec()
    path = '/v1' if scn['prefix'] == 'none' else '/rpc'
    ev = []
    for g in range(3):
        if g == 1 and deferred is not None:
            build_method(deferred)
            deferred = None
        if scn.get('plan') == 'swap' and g == 1:
            # every exposed name is now served by another function: a fresh, parameterless, undocumented, unannotated one
            registry = {'': [], '/api': []}
            for k_, m_ in order:
                registry[k_].append(Method(make_functions()['f4'], m_.name))
        elif scn.get('plan') == 'shrink' and g == 1:
            k0, m0 = order[0]
            registry = {'': [], '/api': []}
            registry[k0].append(m0)
        else:
            registry = methods_map
        before = snapshot(user_objs)
        try:
            raw = spec.schema(path=path, methods_map=registry)
        except Exception as e:
            ev.append({'ev': 'GenerateFailed', 'exc': type(e).__name__})
            break
        heap_same = snapshot(user_objs) == before
        try:
            fresh_same = json.dumps(build_spec().schema(path=path, methods_map=registry), cls=specs.JSONEncoder, sort_keys=True) == \
                json.dumps(raw, cls=specs.JSONEncoder, sort_keys=True)
        except Exception:
            fresh_same = False
        try:
            doc = json.loads(json.dumps(raw, cls=specs.JSONEncoder))
            json_ok = True
        except (TypeError, ValueError):
            ev.append({'ev': 'Generate', 'entries': [], 'json_ok': False, 'meta_ok': False, 'refs_closed': False, 'heap_same': heap_same, 'fresh_same': fresh_same})
            continue
        scn_g = scn
        if scn.get('plan') == 'swap' and g == 1:
            # the projection is relative to what THIS generation's registry holds: unannotated functions under the same names
            scn_g = dict(scn, methods=[dict(m, meta='none') for m in scn['methods']])
        entries = project_openrpc(doc, scn_g) if is_rpc else project_openapi(doc, scn_g, path)
        e = {'ev': 'Generate', 'entries': entries, 'json_ok': json_ok, 'meta_ok': None, 'refs_closed': None, 'heap_same': heap_same, 'fresh_same': fresh_same}
        docs_out.append((e, {'kind': scn['kind'], 'doc': doc}))
        ev.append(e)
    return {'scn': scn_wrap, 'ev': ev}


def main():
    docs = []
    from _guard import guarded
    traces = [guarded(run)(s, docs) for s in json.load(open(sys.argv[1]))]
    if docs:
        d = tempfile.mkdtemp(prefix='metacheck_')
        json.dump([x for _, x in docs], open(os.path.join(d, 'docs.json'), 'w'))
        env = dict(os.environ)
        env.pop('PYTHONPATH', None)
        p = subprocess.run(['python3-vt', os.path.join(os.path.dirname(HERE), 'metacheck.py'), os.path.join(d, 'docs.json'),
                            os.path.join(d, 'out.json')], env=env, stdout=subprocess.PIPE, stderr=subprocess.PIPE, text=True)
        if p.returncode != 0:
            sys.stderr.write(p.stderr)
            sys.exit(3)
        for (e, _), r in zip(docs, json.load(open(os.path.join(d, 'out.json')))):
            e['meta_ok'] = r['meta_ok']
            e['refs_closed'] = r['refs_closed']
            if r['why']:
                e['info'] = r['why']
        import shutil
        shutil.rmtree(d, ignore_errors=True)
    json.dump(traces, open(sys.argv[2], 'w'))


if __name__ == '__main__':
    main()
