"""Driver for spec/TwinsTrace.tla (C13): look-alike validated methods on ONE dispatcher, called in every order.
usage: twins.py SCENARIOS.json TRACES.json"""
import asyncio
import json
import logging
import sys

from pjrpc.server import AsyncDispatcher, Dispatcher
from pjrpc.server.validators import jsonschema as vjs
from pjrpc.server.validators import pydantic as vpd

logging.disable(logging.CRITICAL)
CALLS = {1: ('user.get', [5]), 2: ('tag.get', ['abc']), 3: ('user.get', ['abc']), 4: ('tag.get', [5]),
         5: ('user.find', [5]), 6: ('tag.find', ['abc']), 7: ('user.find', ['abc']), 8: ('tag.find', [5])}


def build(kind):
    d = AsyncDispatcher() if kind == 'async' else Dispatcher()
    pv = vpd.PydanticValidator()
    sv = vjs.JsonSchemaValidator()

    def make_get(ann):
        def get(id):
            return id
        get.__annotations__ = {'id': ann}
        return pv.validate(get)

    def make_find(typ):
        def find(q):
            return q
        return sv.validate(find, schema={'type': 'object', 'properties': {'q': {'type': typ}}, 'required': ['q']})
    d.add(make_get(int), 'user.get')
    d.add(make_get(str), 'tag.get')
    d.add(make_find('integer'), 'user.find')
    d.add(make_find('string'), 'tag.find')
    return d


def run(n, scn, loop):
    kind = 'async' if n % 2 else 'sync'
    d = build(kind)
    ev = []
    for c in scn['hist']:
        name, params = CALLS[c]
        text = json.dumps({'jsonrpc': '2.0', 'id': 1, 'method': name, 'params': params})
        ret = loop.run_until_complete(d.dispatch(text)) if kind == 'async' else d.dispatch(text)
        doc = json.loads(ret[0])
        if 'result' in doc:
            r = doc['result']
            o = 'int' if (isinstance(r, int) and not isinstance(r, bool) and r == 5) else ('str' if r == 'abc' else 'other:%r' % (r,))
        else:
            o = 'invalid' if doc['error'].get('code') == -32602 else 'code:%s' % doc['error'].get('code')
        ev.append({'ev': 'Call', 'c': c, 'outcome': o})
    return {'scn': dict(scn, kind=kind), 'ev': ev}


if __name__ == '__main__':
    loop = asyncio.new_event_loop()
    json.dump([run(n, s, loop) for n, s in enumerate(json.load(open(sys.argv[1])))], open(sys.argv[2], 'w'))
