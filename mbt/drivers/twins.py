"""Driver for spec/TwinsTrace.tla: look-alike methods on ONE dispatcher, called in every order.  The outcome of a call is a
function of the call alone - whatever the validators (their signature / model / binding caches) saw before.
usage: twins.py SCENARIOS.json TRACES.json"""
import asyncio
import functools
import gc
import json
import zlib
import logging
import sys

from pjrpc.server import AsyncDispatcher, Dispatcher, ViewMixin
from pjrpc.server.validators import jsonschema as vjs
from pjrpc.server.validators import pydantic as vpd

logging.disable(logging.CRITICAL)
CALLS = {1: ('user.get', [5]), 2: ('tag.get', ['abc']), 3: ('user.get', ['abc']), 4: ('tag.get', [5]),
         5: ('user.find', [5]), 6: ('tag.find', ['abc']), 7: ('user.find', ['abc']), 8: ('tag.find', [5]),
         9: ('user.load', {'uid': 1}), 10: ('post.load', {'pid': 1, 'full': True}), 11: ('user.load', {'pid': 1}), 12: ('post.load', {'uid': 1}),
         13: ('whoami', []), 14: ('ping', []), 15: ('whoami2', []),
         16: ('withctx', {'a': 1, 'ctx': 5}), 17: ('noctx', {'a': 1, 'ctx': 5}), 18: ('withctx', {'a': 1}), 19: ('noctx', {'a': 1}),
         20: ('tmp', {'x': 1}), 21: ('tmp', {'y': 1}), 22: ('tmp', {'y': 1}),
         23: ('lax.conv', ['5']), 24: ('strict.conv', ['5']), 25: ('lax.conv', [5]), 26: ('strict.conv', [5]),
         27: ('drain', [[1, 2, 3]]), 28: ('pv0.whoami', []), 29: ('pv0.ping', []), 30: ('add', [1, 2]), 31: ('neg', [5]),
         32: ('scratch.note', ['a']), 33: ('scratch.note', ['x']),
         34: ('dflt.one', []), 35: ('dflt.true', []), 36: ('dflt.float', []),
         37: ('typeof', [1]), 38: ('typeof', [True]), 39: ('typeof', [1.0]), 40: ('rereg', ['abc']), 41: ('rereg', [5])}
REGEN = {20: 'x', 21: 'yz', 22: 'x'}


class Ctx:
    pass


def build(kind):
    d = AsyncDispatcher() if kind == 'async' else Dispatcher()
    pv = vpd.PydanticValidator()
    sv = vjs.JsonSchemaValidator()

    def make_get(ann):
        def get(id):
            return id
        get.__annotations__ = {'id': ann}
        return pv.validate(get)

    def typeof(a):
        # arguments that are equal in Python and different in JSON (1, true, 1.0) reach the SAME method of the default validator
        return '%s:%r' % (type(a).__name__, a)

    def make_dflt(default):
        # three functions that differ in the TYPE of a default only: 1 == True == 1.0 in Python, not in JSON
        def dflt(a=default):
            return '%s:%r' % (type(a).__name__, a)
        return pv.validate(dflt)

    pv_strict = vpd.PydanticValidator(coerce=True, strict=True)     # a second validator object with another configuration

    def make_conv(v):
        def conv(n: int):
            return 'int' if type(n) is int else 'other:%r' % (n,)
        return v.validate(conv)

    def make_find(typ):
        def find(q):
            return q
        return sv.validate(find, schema={'type': 'object', 'properties': {'q': {'type': typ}}, 'required': ['q']})

    def make_load(which):
        if which == 'user':
            def load(uid):
                return 'ok'
        else:
            def load(pid, full=False):
                return 'ok'
        return load

    def whoami(ctx):
        return 'ctx' if isinstance(ctx, Ctx) else 'other:%r' % (ctx,)

    def whoami2(session):
        return 'ctx2' if isinstance(session, Ctx) else 'other:%r' % (session,)

    def ping():
        return 'pong'

    def drain(items):
        got = ''.join(str(i) for i in items)
        del items[:]                     # consumes its argument in place
        return got

    pv0 = vpd.PydanticValidator(coerce=False)

    @pv0.validate
    def whoami0(ctx):
        return 'ctx' if isinstance(ctx, Ctx) else 'other:%r' % (ctx,)

    @pv0.validate
    def ping0():
        return 'pong'

    def logged(f):                      # an ordinary decorator: every wrapped function shares the wrapper's code object
        @functools.wraps(f)
        def wrapper(*args, **kwargs):
            return f(*args, **kwargs)
        return wrapper

    @logged
    def add(a, b):
        return str(a + b)

    @logged
    def neg(x):
        return str(-x)

    class Scratch(ViewMixin):
        """a view without a context that keeps per-request scratch data on itself"""

        def __init__(self):
            self.seen = []

        def note(self, what):
            self.seen.append(what)
            return 'noted:' + ','.join(self.seen)

    def both(a, ctx=None):
        return 'a_and_%s' % ('ctx' if isinstance(ctx, Ctx) else ('none' if ctx is None else ctx))
    d.add(make_get(int), 'user.get')
    d.add(make_get(str), 'tag.get')
    d.add(make_find('integer'), 'user.find')
    d.add(make_find('string'), 'tag.find')
    d.add(make_conv(pv), 'lax.conv')
    d.add(make_conv(pv_strict), 'strict.conv')
    d.add(typeof, 'typeof')

    def rereg(n: int):
        return 'ran'
    d.add(rereg, 'rereg')           # registered bare, then given a validator and registered again under the same name:
    pv.validate(rereg)              # the later registration replaces the earlier one
    d.add(rereg, 'rereg')
    d.add(make_dflt(1), 'dflt.one')
    d.add(make_dflt(True), 'dflt.true')
    d.add(make_dflt(1.0), 'dflt.float')
    d.add(make_load('user'), 'user.load')
    d.add(make_load('post'), 'post.load')
    d.add(whoami, 'whoami', context='ctx')
    d.add(whoami2, 'whoami2', context='session')
    d.add(ping, 'ping')
    d.add(both, 'withctx', context='ctx')
    d.add(both, 'noctx')
    d.add(drain, 'drain')
    d.add(whoami0, 'pv0.whoami', context='ctx')
    d.add(ping0, 'pv0.ping')
    d.add(add, 'add')
    d.add(neg, 'neg')
    d.registry.view(Scratch, prefix='scratch')
    return d


def throwaway(kind, shape):
    """a short-lived dispatcher serving a brand new function `tmp` (the process-wide default validator outlives both; the
    memory of an earlier, dropped `tmp` may be reused for this one)"""
    gc.collect()
    d = AsyncDispatcher() if kind == 'async' else Dispatcher()
    if shape == 'x':
        def tmp(x):
            return 'ok'
    else:
        def tmp(y, z=0):
            return 'ok'
    d.add(tmp, 'tmp')
    return d


def run(n, scn, loop):
    kind = 'async' if zlib.crc32(json.dumps(scn, sort_keys=True).encode()) % 2 else 'sync'    # by content, not by position
    d = build(kind)
    ev = []
    for c in scn['hist']:
        name, params = CALLS[c]
        dd = throwaway(kind, REGEN[c]) if c in REGEN else d
        text = json.dumps({'jsonrpc': '2.0', 'id': 1, 'method': name, 'params': params})
        ctx = Ctx()
        ret = loop.run_until_complete(dd.dispatch(text, context=ctx)) if kind == 'async' else dd.dispatch(text, context=ctx)
        del dd
        doc = json.loads(ret[0])
        if 'result' in doc:
            r = doc['result']
            if c <= 8:
                o = 'int' if (isinstance(r, int) and not isinstance(r, bool) and r == 5) else ('str' if r == 'abc' else 'other:%r' % (r,))
            else:
                o = r if isinstance(r, str) else 'other:%r' % (r,)
        else:
            o = 'invalid' if doc['error'].get('code') == -32602 else 'code:%s' % doc['error'].get('code')
        ev.append({'ev': 'Call', 'c': c, 'outcome': o})
    return {'scn': dict(scn, kind=kind), 'ev': ev}


if __name__ == '__main__':
    loop = asyncio.new_event_loop()
    from _guard import guarded
    json.dump([guarded(run, 1)(n, s, loop) for n, s in enumerate(json.load(open(sys.argv[1])))], open(sys.argv[2], 'w'))
