"""Driver for spec/EndToEnd.tla: real client (sync / async) wired in-process to the real dispatcher (sync / async);
the caller's program is written in the notation the scenario names.   usage: endtoend.py SCENARIOS.json TRACES.json"""
import asyncio
import functools as ft
import json
import logging
import sys
import zlib

import pjrpc
from pjrpc.client import AbstractAsyncClient, AbstractClient
from pjrpc.common import exceptions, generators
from pjrpc.server import AsyncDispatcher, Dispatcher

logging.disable(logging.CRITICAL)


class VerifTypedError(exceptions.JsonRpcError):
    code = 2001
    message = 'typed'


class VerifSrvError(exceptions.JsonRpcError):
    """a user error registered for a code inside the reserved server-error range"""
    code = -32001
    message = 'typedsrv'


class VerifBase(exceptions.JsonRpcError):
    """the base class the client is configured with"""


ARGS = {'none': ((), {}), 'pos': ((1, 'x'), {}), 'named': ((), {'a': 1, 'b': 'x'}), 'posdict': (({'a': 1, 'b': 'x'},), {})}
VALUE = {'v_none': {'a': None, 'b': None}, 'v_ab': {'a': 1, 'b': 'x'}, 'v_dict': {'a': {'a': 1, 'b': 'x'}, 'b': None}}
TYPED_DATA = {'k': [1, None]}


def a_value(v):
    for k, x in VALUE.items():
        if v == x:
            return k
    return 'other'


def a_args(params):
    if not params:
        return 'none'
    if list(params) == [1, 'x'] and not isinstance(params, dict):
        return 'pos'
    if not isinstance(params, dict) and list(params) == [{'a': 1, 'b': 'x'}]:
        return 'posdict'
    if params == {'a': 1, 'b': 'x'}:
        return 'named'
    return 'other'


def a_exec_args(a, b):
    if (a, b) == ({'a': 1, 'b': 'x'}, None):
        return 'dict'
    return 'none' if (a, b) == (None, None) else ('ab' if (a, b) == (1, 'x') else 'other')


def make_dispatcher(kind, execs):
    coro = kind == 'async'
    is_async = kind in ('async', 'async_plain')

    def body(beh, a, b):
        execs.append({'beh': beh, 'args': a_exec_args(a, b)})
        if beh == 'typed':
            raise VerifTypedError(data=TYPED_DATA)
        if beh == 'typednull':
            raise VerifTypedError(message='', data=None)
        if beh == 'unreg':
            raise exceptions.JsonRpcError(code=777, message='unreg')
        if beh == 'typedsrv':
            raise VerifSrvError(data=TYPED_DATA)
        if beh == 'unregsrv':
            raise exceptions.JsonRpcError(code=-32050, message='unregsrv')
        if beh == 'exc':
            raise ValueError('boom')
        return {'a': a, 'b': b}

    d = AsyncDispatcher() if is_async else Dispatcher()
    for k, beh in enumerate(('echo', 'typed', 'typednull', 'unreg', 'exc', 'typedsrv', 'unregsrv', '_echo')):
        if coro:
            async def m(a=None, b=None, _beh=beh):
                return body(_beh, a, b)
            if k % 2 == 0:
                # every second coroutine method sits behind an ordinary decorator: a plain function that returns the coroutine
                import functools

                def plain(f):
                    @functools.wraps(f)
                    def wrapper(*args, **kwargs):
                        return f(*args, **kwargs)
                    return wrapper
                m = plain(m)
        else:
            def m(a=None, b=None, _beh=beh):
                return body(_beh, a, b)
        d.add(m, beh)
    return d


def abstract_wire(text):
    """request text -> (abstract doc, well-formed?, ids ok?)"""
    try:
        doc = json.loads(text)
    except ValueError:
        return {'k': 'notjson', 'els': []}, False, False
    try:
        if isinstance(doc, list):
            parsed = list(pjrpc.BatchRequest.from_json(doc))
        else:
            parsed = [pjrpc.Request.from_json(doc)]
        wf = True
    except Exception:
        return {'k': 'invalid', 'els': []}, False, False
    raw = doc if isinstance(doc, list) else [doc]
    els = [{'method': r.method, 'args': a_args(r.params), 'hasid': 'id' in o and o['id'] is not None}
           for r, o in zip(parsed, raw)]
    ids = [o['id'] for o in raw if 'id' in o and o['id'] is not None]
    ids_ok = all(isinstance(i, (int, str)) and not isinstance(i, bool) for i in ids) and \
        len({(type(i).__name__, i) for i in ids}) == len(ids)
    return {'k': 'batch' if isinstance(doc, list) else 'single', 'els': els}, wf, ids_ok


def run(scn, loop):
    p = scn['prog']
    ev, execs = [], []
    disp = make_dispatcher(p['dk'], execs)

    # variant (chosen by the content of the program, the same for both halves): the batch wrapper object has already made a round
    # trip with one call before the program's calls are added to it and it is called again
    hv = zlib.crc32(json.dumps({k: v for k, v in p.items() if k not in ('ck', 'dk')}, sort_keys=True).encode())
    warm = hv % 3 == 0 and p['idgen'] != 'uuid' and any(not c['notif'] for c in p['calls']) and p['notation'] not in ('call', 'dunder_call', 'proxy', 'notify', 'send', 'batch_getitem', 'batch_proxy')
    warming = [False]
    resent = [False]

    def transport(text, is_notification, kwargs):
        if warming[0]:
            return disp.dispatch(text)
        doc, wf, ids_ok = abstract_wire(text)
        if warm and doc['els'] and doc['els'][0]['args'] == 'other' and doc['els'][0]['method'] == 'echo':
            resent[0] = True           # the earlier call is sent again with the new ones: left out of the abstract document
            doc['els'] = doc['els'][1:]
        # what else the transport is handed: the notification flag and the request arguments (client-wide ones, overridden by
        # those given for this very request)
        kw = {'a': 'client', 'b': 'client'} == kwargs and 'client' or ({'a': 'client', 'b': 'call'} == kwargs and 'override' or 'other:%r' % (kwargs,))
        e = {'ev': 'Send', 'doc': doc, 'wf': wf, 'ids_ok': ids_ok, 'notif': is_notification is True, 'kw': kw}
        if warm:
            e['resent'] = resent[0]    # compared between the halves (C11); the specification leaves it open
        ev.append(e)
        return disp.dispatch(text)              # a coroutine for the asynchronous dispatcher

    def after(ret):
        if warming[0]:
            del execs[:]
            return ret[0] if ret is not None else None
        if resent[0] and execs and execs[0]['args'] == 'other':
            del execs[0]
        ev.append({'ev': 'Serve', 'execs': [{'beh': e['beh'], 'args': 'none' if e['args'] == 'none' else e['args']} for e in execs]})
        return ret[0] if ret is not None else None

    if p['ck'] == 'async':
        class C(AbstractAsyncClient):
            async def _request(self, request_text, is_notification=False, **kwargs):
                r = transport(request_text, is_notification, kwargs)
                if asyncio.iscoroutine(r):
                    r = await r
                return after(r)
    else:
        class C(AbstractClient):
            def _request(self, request_text, is_notification=False, **kwargs):
                r = transport(request_text, is_notification, kwargs)
                if asyncio.iscoroutine(r):
                    r = loop.run_until_complete(r)
                return after(r)
    def empty_string():
        while True:
            yield ''
    idgen = {'sequential': generators.sequential, 'sequential0': ft.partial(generators.sequential, 0), 'empty_string': empty_string, 'randint': ft.partial(generators.randint, 1, 2 ** 40),
             'random': generators.random, 'uuid': generators.uuid}[p['idgen']]
    extra = {} if p['strict'] else {'batch_request_class': ft.partial(pjrpc.BatchRequest, strict=False)}     # a lenient client builds lenient batches
    client = C(id_gen_impl=idgen, strict=p['strict'], error_cls=VerifBase, request_args={'a': 'client', 'b': 'client'}, **extra)
    calls = p['calls']
    nt = p['notation']

    def do():
        c0 = calls[0]
        a0, k0 = ARGS[c0['args']]
        if nt == 'call':
            return client.call(c0['beh'], *a0, **k0)
        if nt == 'dunder_call':
            return client(c0['beh'], *a0, **k0)
        if nt == 'proxy':
            return getattr(client.proxy, c0['beh'])(*a0, **k0)
        if nt == 'notify':
            return client.notify(c0['beh'], *a0, **k0)
        if nt == 'send':
            req = pjrpc.Request(c0['beh'], list(a0) or k0, id=next(client.id_gen_impl()))
            r = client.send(req, b='call')        # a request argument given for this request only
            if asyncio.iscoroutine(r):
                async def w():
                    return (await r).result
                return w()
            return r.result
        b = client.batch
        if nt == 'batch_getitem':
            return b[[(c['beh'],) + ARGS[c['args']][0] for c in calls]]
        if nt == 'batch_proxy':
            pr = b.proxy
            for c in calls:
                getattr(pr, c['beh'])(*ARGS[c['args']][0], **ARGS[c['args']][1])
            return pr() if len(calls) % 2 else pr.call()       # the proxy object itself is callable
        if warm:
            b.add('echo', 'warm')
            warming[0] = True
            r0 = b.call()
            if asyncio.iscoroutine(r0):
                r0 = loop.run_until_complete(r0)
            warming[0] = False
        for c in calls:
            a, k = ARGS[c['args']]
            if c['notif']:
                b.notify(c['beh'], *a, **k)
            elif nt == 'batch_call':
                b(c['beh'], *a, **k)
            else:
                b.add(c['beh'], *a, **k)
        return b.call()

    try:
        res = do()
        if asyncio.iscoroutine(res):
            res = loop.run_until_complete(res)
    except exceptions.JsonRpcError as e:
        cls = type(e).__name__
        if cls == 'VerifTypedError' and e.code == 2001 and e.data is None:
            cls = 'VerifTypedErrorNull'
        kind = {('VerifTypedError', 2001): 'typed_2001', ('VerifTypedErrorNull', 2001): 'typed_2001_null', ('VerifBase', 777): 'base_777', ('VerifSrvError', -32001): 'typed_m32001', ('VerifBase', -32050): 'base_m32050', ('ServerError', -32000): 'server_32000'}.get((cls, e.code), 'other:%s:%s' % (cls, e.code))
        verb = {'typed_2001': e.message == 'typed' and e.data == TYPED_DATA, 'typed_2001_null': e.message == '' and e.data is None,
                'base_777': e.message == 'unreg' and e.data is pjrpc.common.UNSET,
                'typed_m32001': e.message == 'typedsrv' and e.data == TYPED_DATA, 'base_m32050': e.message == 'unregsrv' and e.data is pjrpc.common.UNSET,
                'server_32000': isinstance(e.message, str)}.get(kind, False)
        ev.append({'ev': 'Raise', 'err': kind, 'verbatim': bool(verb)})
    except BaseException as e:  # noqa
        ev.append({'ev': 'Raise', 'err': type(e).__name__, 'verbatim': True})
    else:
        if res is None:
            ev.append({'ev': 'Return', 'k': 'nothing', 'vals': []})
        elif isinstance(res, tuple):
            if resent[0] and res and res[0] == {'a': 'warm', 'b': None}:
                res = res[1:]
            ev.append({'ev': 'Return', 'k': 'tuple', 'vals': [a_value(v) for v in res]})
        else:
            ev.append({'ev': 'Return', 'k': 'value', 'vals': [a_value(res)]})
    return {'scn': scn, 'ev': ev}


if __name__ == '__main__':
    loop = asyncio.new_event_loop()
    from _guard import guarded
    json.dump([guarded(run)(s, loop) for s in json.load(open(sys.argv[1]))], open(sys.argv[2], 'w'))
