"""Driver for spec/HttpGate.tla: posts the abstract request to the real aiohttp / flask / werkzeug integrations
(aiohttp over a loopback test server, flask and werkzeug through their test clients) and records the HTTP reply.
usage: httpgate.py SCENARIOS.json TRACES.json"""
import asyncio
import json
import logging
import sys
import zlib

import pjrpc
from pjrpc.common import exceptions
from pjrpc.server import AsyncDispatcher, Dispatcher
from pjrpc.server.integration import aiohttp as _i1, flask as _i2, werkzeug as _i3  # noqa: F401  (imported BEFORE any configuration happens)

logging.disable(logging.CRITICAL)
EXECS = []

BODIES = {
    'call_ok': b'{"jsonrpc": "2.0", "id": 1, "method": "ok", "params": [1]}',
    'call_err': b'{"jsonrpc": "2.0", "id": "x", "method": "perr"}',
    'notif': b'{"jsonrpc": "2.0", "method": "ok", "params": [2]}',
    'batch_ok': b'[{"jsonrpc": "2.0", "id": 1, "method": "ok", "params": [1]}, {"jsonrpc": "2.0", "id": 2, "method": "ok", "params": [2]}]',
    'batch_mixed': b'[{"jsonrpc": "2.0", "id": 1, "method": "ok", "params": [1]}, {"jsonrpc": "2.0", "id": 2, "method": "perr"}]',
    'batch_notif': b'[{"jsonrpc": "2.0", "method": "ok", "params": [1]}, {"jsonrpc": "2.0", "method": "perr"}]',
    'unknown': b'{"jsonrpc": "2.0", "id": 1, "method": "nope"}',
    'badparams': b'{"jsonrpc": "2.0", "id": 1, "method": "ok", "params": {"zz": 1}}',
    'invalid': b'{"jsonrpc": "1.0", "id": 1, "method": "ok"}',
    'notjson': b'{"jsonrpc": "2.0", "id": 1, "meth',
    'non_utf8': b'\xff\xfe{"jsonrpc": "2.0", "id": 1, "method": "ok", "params": [1]}',
}


WHO = {'none': 'main', 'api': 'sub', 'zzz': 'last'}


def status_custom(codes):
    """looks at the whole tuple of codes: how many there are and whether any is an error"""
    if len(codes) > 1:
        return 202 if all(c == 0 for c in codes) else 207
    return 201 if all(c == 0 for c in codes) else 422


def register(d, who, coro):
    if coro:
        async def ok(a):
            EXECS.append(who)
            return [who, a]

        async def perr():
            EXECS.append(who)
            raise exceptions.JsonRpcError(code=2001, message='perr ' + who)
    else:
        def ok(a):
            EXECS.append(who)
            return [who, a]

        def perr():
            EXECS.append(who)
            raise exceptions.JsonRpcError(code=2001, message='perr ' + who)
    d.add(ok, 'ok')
    d.add(perr, 'perr')


def media_header(m):
    if m['base'] == 'missing':
        return None
    b = m['base']
    return {'plain': b, 'charset': b + '; charset=utf-8', 'upper': b.upper(), 'charset_upper': b.upper() + '; Charset=UTF-8',
            'spaces': b + ' ; charset=utf-8', 'charset_ascii': b + '; charset=us-ascii',
            'charset_latin1': b + '; charset=iso-8859-1', 'charset_unknown': b + '; charset=x-no-such-encoding'}[m['variant']]


def reference(who, text_bytes, coro, loop):
    """what an identically configured dispatcher returns for the same text"""
    try:
        text = text_bytes.decode('utf-8')
    except UnicodeDecodeError:
        return 'undecodable'
    d = AsyncDispatcher() if coro else Dispatcher()
    register(d, who, coro)
    n = len(EXECS)
    ret = loop.run_until_complete(d.dispatch(text)) if coro else d.dispatch(text)
    del EXECS[n:]
    return None if ret is None else json.loads(ret[0])


def classify(status, ctype, body, ref, also=()):
    got = (ctype or '').split(';')[0].strip().lower()
    ct = 'none' if not ctype else ('json' if (got == pjrpc.common.DEFAULT_CONTENT_TYPE or got in also) else 'other')
    if not body:
        b = 'empty'
    else:
        try:
            doc = json.loads(body)
            if ref not in (None, 'undecodable') and doc == ref:
                b = 'same'
            elif isinstance(doc, dict) and isinstance(doc.get('error'), dict) and doc['error'].get('code') == -32700:
                b = 'parse_error'
            else:
                b = 'other'
        except ValueError:
            b = 'notjson'
    return {'status': status, 'ctype': ct, 'body': b}


# ------------------------------------------------------------------ integrations (built once per process and status fn)
_apps = {}


def flask_app(fn):
    import flask
    from pjrpc.server.integration import flask as integ
    kw = {} if fn == 'default' else {'status_by_error': status_custom}
    j = integ.JsonRPC('/rpc', **kw)
    register(j.dispatcher, 'main', False)
    register(j.add_endpoint('/api'), 'sub', False)
    register(j.add_endpoint('/zzz'), 'last', False)
    app = flask.Flask('verif_' + fn)
    j.init_app(app)
    return app.test_client()


def werkzeug_app(prefix):
    import werkzeug.test
    from pjrpc.server.integration import werkzeug as integ
    j = integ.JsonRPC({'none': '/rpc', 'api': '/rpc/api', 'zzz': '/rpc/zzz'}[prefix])
    register(j.dispatcher, WHO[prefix], False)
    return werkzeug.test.Client(j)


def aiohttp_client(fn, loop):
    from aiohttp import test_utils
    from pjrpc.server.integration import aiohttp as integ
    kw = {} if fn == 'default' else {'status_by_error': status_custom}
    j = integ.Application('/rpc', **kw)
    register(j.dispatcher, 'main', True)
    register(j.add_endpoint('/api'), 'sub', True)
    from aiohttp import web
    register(j.add_endpoint('/zzz', subapp=web.Application()), 'last', True)      # served by a sub-application of its own

    async def mk():
        server = test_utils.TestServer(j.app)
        client = test_utils.TestClient(server)
        await client.start_server()
        return client
    return loop.run_until_complete(mk())


def get(kind, key, factory):
    if (kind, key) not in _apps:
        _apps[(kind, key)] = factory()
    return _apps[(kind, key)]


ALT_CT = 'application/json-rpc'


def run(scn, loop):
    """variant (by the content of the request, the same for every integration): the application configured another default
    content type (pjrpc.set_default_content_type) after the integrations had been imported"""
    alt = zlib.crc32(json.dumps({k: v for k, v in scn['req'].items() if k != 'integ'}, sort_keys=True).encode()) % 4 == 0
    if alt:
        pjrpc.set_default_content_type(ALT_CT)
    try:
        return _run(scn, loop)
    finally:
        pjrpc.set_default_content_type('application/json')


def _run(scn, loop):
    r = scn['req']
    body = BODIES[r['body']]
    header = media_header(r['media'])
    who = WHO[r['prefix']]
    path = {'none': '/rpc', 'api': '/rpc/api', 'zzz': '/rpc/zzz'}[r['prefix']]
    del EXECS[:]
    headers = {} if header is None else {'Content-Type': header}
    try:
        if r['integ'] == 'flask':
            c = get('flask', r['statusfn'], lambda: flask_app(r['statusfn']))
            resp = c.post(path, data=body, headers=headers)
            status, ctype, data = resp.status_code, resp.headers.get('Content-Type'), resp.get_data()
        elif r['integ'] == 'werkzeug':
            c = get('werkzeug', r['prefix'], lambda: werkzeug_app(r['prefix']))
            resp = c.post(path, data=body, headers=headers)
            status, ctype, data = resp.status_code, resp.headers.get('Content-Type'), resp.get_data()
        else:
            c = get('aiohttp', r['statusfn'], lambda: aiohttp_client(r['statusfn'], loop))

            async def go():
                kw = {'data': body, 'headers': headers}
                if header is None:
                    kw['skip_auto_headers'] = ['Content-Type']
                async with c.post(path, **kw) as resp:
                    return resp.status, resp.headers.get('Content-Type'), await resp.read()
            status, ctype, data = loop.run_until_complete(go())
    except BaseException as e:  # noqa
        return {'scn': scn, 'ev': [{'ev': 'Reply', 'status': -1, 'ctype': 'raised:' + type(e).__name__, 'body': 'none', 'execs': len(EXECS)}]}
    n = len(EXECS)
    wrong = [w for w in EXECS if w != who]
    ref = reference(who, body, r['integ'] == 'aiohttp', loop)
    # (the aiohttp integration answers through web.json_response: "application/json" whatever default is configured - both count
    # as the JSON content type there)
    e = classify(status, ctype, data, ref, also=('application/json',) if r['integ'] == 'aiohttp' else ())
    e.update({'ev': 'Reply', 'execs': n if not wrong else -len(wrong)})
    return {'scn': scn, 'ev': [e]}


if __name__ == '__main__':
    loop = asyncio.new_event_loop()
    asyncio.set_event_loop(loop)
    out = [run(s, loop) for s in json.load(open(sys.argv[1]))]
    for (kind, _), c in _apps.items():
        if kind == 'aiohttp':
            loop.run_until_complete(c.close())
    json.dump(out, open(sys.argv[2], 'w'))
