"""Driver for spec/BatchIds.tla: replays append / extend histories on real BatchRequest / BatchResponse.
usage: batchids.py SCENARIOS.json TRACES.json"""
import json
import os
import sys

sys.path.insert(0, os.path.dirname(os.path.dirname(os.path.abspath(__file__))))
from jsonvals import abst, conc  # noqa: E402

import pjrpc  # noqa: E402
from pjrpc.common import exceptions  # noqa: E402


def mk(kind, tag, n):
    i = None if tag == 'none' else conc(tag)
    if kind == 'breq':
        return pjrpc.Request('m%d' % n, [n], i)
    return pjrpc.Response(id=i, result=n)


def a_id(x):
    return 'none' if x is None else abst(x)


def observe(kind, batch):
    doc = batch.to_json()
    return {'items': [a_id(m.id) for m in batch],
            'json_items': [a_id(d.get('id')) for d in doc] if isinstance(doc, list) else ['other:' + type(doc).__name__],
            'n': len(batch)}


def run(scn):
    kind = scn['kind']
    strict = scn.get('strict', True)
    batch = pjrpc.BatchRequest(strict=strict) if kind == 'breq' else pjrpc.BatchResponse(strict=strict)
    ev, n = [], 0
    for op in scn['hist']:
        msgs = []
        for t in op['ids']:
            n += 1
            msgs.append(mk(kind, t, n))
        try:
            if op['op'] == 'append':
                batch.append(msgs[0])
            else:
                batch.extend(msgs)
            v = 'Ok'
        except exceptions.IdentityError:
            v = 'Identity'
        except Exception as e:
            v = 'Other:' + type(e).__name__
        e = {'ev': 'Op', 'op': op['op'], 'ids': op['ids'], 'v': v}
        e.update(observe(kind, batch))
        ev.append(e)
    return {'scn': scn, 'ev': ev}


if __name__ == '__main__':
    from _guard import guarded
    json.dump([guarded(run)(s) for s in json.load(open(sys.argv[1]))], open(sys.argv[2], 'w'))
