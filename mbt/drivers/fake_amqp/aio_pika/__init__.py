"""An in-memory stand-in for the parts of aio_pika that pjrpc's aio_pika client backend and server integration use (the real
package is not installed in this sandbox).  It is the ENVIRONMENT of spec/AmqpRpc.tla: queues are FIFO lists, nothing is
delivered until the driver says so (BROKER.deliver), no call ever blocks inside the broker."""
import asyncio
import itertools
from . import abc, connection, message  # noqa: F401
from .message import Message, IncomingMessage  # noqa: F401


class Broker:
    def __init__(self):
        self.reset()

    def reset(self):
        self.queues = {}        # name -> list of IncomingMessage
        self.consumers = {}     # name -> (tag, callback, channel)
        self.log = []           # ('publish', routing_key, message)
        self._tags = itertools.count(1)

    def publish(self, msg, routing_key):
        inc = IncomingMessage(msg, routing_key)
        self.queues.setdefault(routing_key, []).append(inc)
        self.log.append(('publish', routing_key, inc))

    def deliver(self, name):
        """hand the head of queue `name` to its consumer (as a task); returns the message or None"""
        q = self.queues.get(name) or []
        if not q or name not in self.consumers:
            return None
        inc = q.pop(0)
        asyncio.ensure_future(self.consumers[name][1](inc))
        return inc


BROKER = Broker()
