from . import abc


class _Exchange(abc.AbstractExchange):
    def __init__(self, name):
        self.name = name

    async def publish(self, message, routing_key):
        from . import BROKER
        BROKER.publish(message, routing_key)


class _Queue(abc.AbstractQueue):
    def __init__(self, channel, name):
        self.channel = channel
        self.name = name

    async def consume(self, callback, no_ack=False):
        from . import BROKER
        tag = 'ctag%d' % next(BROKER._tags)
        BROKER.consumers[self.name] = (tag, callback, self.channel)
        self.channel.consuming.add(self.name)
        return tag

    async def cancel(self, tag):
        from . import BROKER
        if self.name in BROKER.consumers and BROKER.consumers[self.name][0] == tag:
            del BROKER.consumers[self.name]


class _Channel(abc.AbstractChannel):
    """awaitable (`await connection.channel()`) and an async context manager (`async with connection.channel()`)"""

    def __init__(self):
        self.default_exchange = _Exchange('')
        self.consuming = set()
        self.closed = False

    def __await__(self):
        async def me():
            return self
        return me().__await__()

    async def __aenter__(self):
        return self

    async def __aexit__(self, *exc):
        await self.close()

    async def declare_exchange(self, name, **kwargs):
        return _Exchange(name)

    async def declare_queue(self, name, **kwargs):
        from . import BROKER
        BROKER.queues.setdefault(name, [])
        return _Queue(self, name)

    async def set_qos(self, prefetch_count=0):
        pass

    async def close(self):
        from . import BROKER
        self.closed = True
        for name in list(self.consuming):           # closing a channel cancels its consumers
            if name in BROKER.consumers and BROKER.consumers[name][2] is self:
                del BROKER.consumers[name]


class Connection:
    def __init__(self, url, **kwargs):
        self.url = url
        self.closed = False

    async def connect(self):
        pass

    def channel(self):
        return _Channel()

    async def close(self):
        self.closed = True
