from . import abc


class Message:
    def __init__(self, body, *, correlation_id=None, reply_to=None, content_encoding=None, content_type=None, **kwargs):
        self.body = body
        self.correlation_id = correlation_id
        self.reply_to = reply_to
        self.content_encoding = content_encoding
        self.content_type = content_type
        self.extra = kwargs


class IncomingMessage(abc.AbstractIncomingMessage):
    def __init__(self, msg, routing_key):
        self.body = msg.body
        self.correlation_id = msg.correlation_id
        self.reply_to = msg.reply_to
        self.content_encoding = msg.content_encoding
        self.content_type = msg.content_type
        self.routing_key = routing_key
        self.acks = 0

    async def ack(self):
        self.acks += 1
