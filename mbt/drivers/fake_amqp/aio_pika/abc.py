class AbstractIncomingMessage:
    pass


class AbstractChannel:
    pass


class AbstractExchange:
    pass


class AbstractQueue:
    pass
