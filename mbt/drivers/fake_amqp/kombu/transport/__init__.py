from . import virtual  # noqa: F401
