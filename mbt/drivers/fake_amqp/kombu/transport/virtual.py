class AbstractChannel:
    pass
