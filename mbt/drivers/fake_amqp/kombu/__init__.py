"""An in-memory stand-in for the parts of kombu that pjrpc's kombu client backend and server integration use (the real package
is not installed in this sandbox).  It is the ENVIRONMENT of spec/AmqpRpc.tla in its sequential variant: queues are FIFO lists and
`Connection.drain_events` performs exactly the next step of the schedule the driver installed (BROKER.pump)."""
import itertools
import socket
import uuid as _uuid

from . import mixins, transport  # noqa: F401


class Message:
    def __init__(self, body, routing_key, properties, content_type):
        self.body = body
        self.routing_key = routing_key
        self.properties = properties
        self.content_type = content_type
        self.acks = 0

    def ack(self):
        self.acks += 1


class Broker:
    def __init__(self):
        self.reset()

    def reset(self):
        self.queues = {}
        self.consumers = {}     # queue name -> callback
        self.log = []
        self.pump = None        # what drain_events() does: installed by the driver (performs the next step of the schedule)
        self._tags = itertools.count(1)

    def publish(self, body, routing_key, properties, content_type):
        m = Message(body, routing_key, properties, content_type)
        self.queues.setdefault(routing_key, []).append(m)
        self.log.append(('publish', routing_key, m))
        return m

    def deliver(self, name):
        q = self.queues.get(name) or []
        if not q or name not in self.consumers:
            return None
        m = q.pop(0)
        self.consumers[name](m)
        return m


BROKER = Broker()


def uuid():
    return str(_uuid.uuid4())


class Exchange:
    def __init__(self, name='', **kwargs):
        self.name = name


class Queue:
    def __init__(self, name=None, exclusive=False, **kwargs):
        self.name = name
        self.exclusive = exclusive

    def declare(self, channel=None):
        BROKER.queues.setdefault(self.name, [])


class Connection:
    def __init__(self, url, **kwargs):
        self.url = url
        self.default_channel = object()
        self.closed = False

    def drain_events(self, timeout=None):
        if BROKER.pump is None:
            raise socket.timeout('no schedule installed')
        BROKER.pump()

    def close(self):
        self.closed = True


class Producer:
    def __init__(self, connection):
        self.connection = connection

    def __enter__(self):
        return self

    def __exit__(self, *exc):
        return False

    def publish(self, body, exchange='', routing_key=None, reply_to=None, correlation_id=None, content_type=None, **kwargs):
        props = {}
        if reply_to is not None:
            props['reply_to'] = reply_to
        if correlation_id is not None:
            props['correlation_id'] = correlation_id
        BROKER.publish(body, routing_key, props, content_type)


class Consumer:
    def __init__(self, connection=None, on_message=None, queues=None, no_ack=False, channel=None, accept=None, prefetch_count=0):
        self.on_message = on_message
        self.queues = queues if isinstance(queues, (list, tuple)) else [queues]

    def __enter__(self):
        for q in self.queues:
            BROKER.consumers[q.name] = self.on_message
        return self

    def __exit__(self, *exc):
        for q in self.queues:
            BROKER.consumers.pop(q.name, None)
        return False
