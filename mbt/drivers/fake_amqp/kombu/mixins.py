class ConsumerProducerMixin:
    """the server side base class: `producer` publishes into the in-memory broker"""

    @property
    def producer(self):
        from . import Producer
        return Producer(getattr(self, 'connection', None))
