"""Driver for spec/Wire.tla: runs real pjrpc (de)serialisation for each abstract scenario and records
what happened in the spec's vocabulary.  Runs under /venv/bin/python with PYTHONPATH=<tree>.

No verdicts are computed here: the driver concretises, calls, abstracts.  TLC (WireTrace) decides.
usage: wire.py SCENARIOS.json TRACES.json
"""
import json
import os
import sys

sys.path.insert(0, __import__('os').path.dirname(__import__('os').path.dirname(__import__('os').path.abspath(__file__))))
from jsonvals import ABSENT, NA, abst, conc, same_json  # noqa: E402

import pjrpc  # noqa: E402
from pjrpc.common import UNSET, exceptions  # noqa: E402


class VerifBaseError(exceptions.JsonRpcError):
    """a user-supplied base class (no code registered)"""


class VerifCustomError(exceptions.JsonRpcError):
    code = 2001
    message = 'verif custom'


class VerifZeroError(exceptions.JsonRpcError):
    """a user error class registered for code 0"""
    code = 0
    message = 'zero'


class VerifScopedBase(exceptions.JsonRpcError):
    """a base class with a resolution of its own: only its own subclasses count (the recipe of the documentation)"""

    @classmethod
    def get_error_cls(cls, code, default):
        return next(iter((c for c in cls.__subclasses__() if getattr(c, 'code', None) == code)), default)


class VerifScopedChild(VerifScopedBase):
    code = 1
    message = 'scoped'


# history of the class registry: an error with code 2002 is deserialised BEFORE any class claims that code ...
_early = exceptions.JsonRpcError.from_json({'code': 2002, 'message': 'before the class existed'})
assert type(_early) is exceptions.JsonRpcError


class VerifLateError(exceptions.JsonRpcError):
    """... and only then a class for 2002 comes into being: from now on that code deserialises to it"""
    code = 2002
    message = 'late'


# ... the code is deserialised again, and then ANOTHER class is registered for the same code: the latest registration wins
_second = exceptions.JsonRpcError.from_json({'code': 2002, 'message': 'between the two registrations'})


class VerifAbcMeta(type(exceptions.JsonRpcError), __import__('abc').ABCMeta):
    """error classes that are abstract base classes as well: their metaclass derives from the library's"""


class VerifLatestError(exceptions.JsonRpcError, metaclass=VerifAbcMeta):
    code = 2002
    message = 'latest'


CLASSES = {c.__name__: c for c in (
    VerifLateError, VerifLatestError,
    VerifScopedBase, VerifScopedChild,
    VerifZeroError,
    exceptions.JsonRpcError, VerifBaseError, VerifCustomError, exceptions.ParseError,
    exceptions.InvalidRequestError, exceptions.MethodNotFoundError, exceptions.InvalidParamsError,
    exceptions.InternalError, exceptions.ServerError)}

NOERR = {'cls': NA, 'code': NA, 'message': NA, 'data': NA}


# ---------------------------------------------------------------- concretise documents
def c_member(d, name, tag):
    if tag != ABSENT:
        d[name] = conc(tag)


def c_err_doc(e):
    if e['shape'] != 'obj':
        return conc(e['shape'])
    d = {}
    for k in ('code', 'message', 'data'):
        c_member(d, k, e[k])
    return d


def c_req_doc(w):
    if w['shape'] != 'obj':
        return conc(w['shape'])
    d = {}
    for k in ('jsonrpc', 'id', 'method', 'params'):
        c_member(d, k, w[k])
    return d


def c_resp_doc(w):
    if w['shape'] != 'obj':
        return conc(w['shape'])
    d = {}
    for k in ('jsonrpc', 'id', 'result'):
        c_member(d, k, w[k])
    if w['error']['shape'] != ABSENT:
        d['error'] = c_err_doc(w['error'])
    return d


def c_breq_doc(w):
    return [c_req_doc(e) for e in w['els']] if w['shape'] == 'arr' else conc(w['shape'])


def c_bresp_doc(w):
    if w['shape'] == 'arr':
        return [c_resp_doc(e) for e in w['els']]
    if w['shape'] == 'obj':
        return c_resp_doc(w['obj'])
    return conc(w['shape'])


# ---------------------------------------------------------------- abstract documents (to_json output)
def a_members(d, names):
    out = {'shape': 'obj' if set(d) <= set(names) else 'obj+extra'}
    for n in names:
        out[n] = abst(d[n]) if n in d else ABSENT
    return out


def a_err_doc(d):
    if not isinstance(d, dict):
        return {'shape': abst(d), 'code': NA, 'message': NA, 'data': NA}
    return a_members(d, ('code', 'message', 'data'))


ABSENT_ERR = {'shape': ABSENT, 'code': NA, 'message': NA, 'data': NA}


def a_req_doc(d):
    if not isinstance(d, dict):
        return {'shape': abst(d), 'jsonrpc': NA, 'id': NA, 'method': NA, 'params': NA}
    return a_members(d, ('jsonrpc', 'id', 'method', 'params'))


def a_resp_doc(d):
    if not isinstance(d, dict):
        return {'shape': abst(d), 'jsonrpc': NA, 'id': NA, 'result': NA, 'error': ABSENT_ERR}
    out = a_members({k: v for k, v in d.items() if k != 'error'}, ('jsonrpc', 'id', 'result'))
    out['error'] = a_err_doc(d['error']) if 'error' in d else ABSENT_ERR
    return out


NO_RESP_DOC = {'shape': NA, 'jsonrpc': NA, 'id': NA, 'result': NA, 'error': ABSENT_ERR}


def a_breq_doc(d):
    if isinstance(d, (list, tuple)):
        return {'shape': 'arr', 'els': [a_req_doc(e) for e in d]}
    return {'shape': abst(d), 'els': []}


def a_bresp_doc(d):
    if isinstance(d, (list, tuple)):
        return {'shape': 'arr', 'els': [a_resp_doc(e) for e in d], 'obj': NO_RESP_DOC}
    if isinstance(d, dict):
        return {'shape': 'obj', 'els': [], 'obj': a_resp_doc(d)}
    return {'shape': abst(d), 'els': [], 'obj': NO_RESP_DOC}


# ---------------------------------------------------------------- abstract message objects
def a_req_msg(r):
    return {'method': abst(r.method), 'params': 'none' if not r.params else abst(r.params),
            'id': 'notif' if r.id is None else abst(r.id)}


def a_err_msg(e):
    return {'cls': type(e).__name__, 'code': abst(e.code), 'message': abst(e.message),
            'data': ABSENT if e.data is UNSET else abst(e.data)}


def a_resp_msg(r):
    if r.is_success:
        return {'id': 'null' if r.id is None else abst(r.id), 'k': 'result', 'v': abst(r.result), 'err': NOERR}
    return {'id': 'null' if r.id is None else abst(r.id), 'k': 'error', 'v': NA, 'err': a_err_msg(r.error)}


def a_breq_msg(b):
    return [a_req_msg(r) for r in b]


def a_bresp_msg(b):
    if b.is_error:
        return {'k': 'error', 'err': a_err_msg(b.error), 'els': []}
    return {'k': 'list', 'err': NOERR, 'els': [a_resp_msg(r) for r in b]}


# ---------------------------------------------------------------- build objects from messages
def b_req(m):
    params = None if m['params'] == 'none' else conc(m['params'])
    return pjrpc.Request(conc(m['method']), params, None if m['id'] == 'notif' else conc(m['id']))


def b_err(m):
    data = UNSET if m['data'] == ABSENT else conc(m['data'])
    return CLASSES[m['cls']](code=conc(m['code']), message=conc(m['message']), data=data)


def b_resp(m):
    rid = None if m['id'] == 'null' else conc(m['id'])
    if m['k'] == 'result':
        return pjrpc.Response(id=rid, result=conc(m['v']))
    return pjrpc.Response(id=rid, error=b_err(m['err']))


def b_breq(m):
    return pjrpc.BatchRequest(*[b_req(e) for e in m])


def b_bresp(m):
    if m['k'] == 'error':
        return pjrpc.BatchResponse(error=b_err(m['err']))
    return pjrpc.BatchResponse(*[b_resp(e) for e in m['els']])


KINDS = {
    'req': (c_req_doc, a_req_doc, a_req_msg, b_req, lambda v, base: pjrpc.Request.from_json(v)),
    'err': (c_err_doc, a_err_doc, a_err_msg, b_err, lambda v, base: base.from_json(v)),
    'resp': (c_resp_doc, a_resp_doc, a_resp_msg, b_resp, lambda v, base: pjrpc.Response.from_json(v, error_cls=base)),
    'breq': (c_breq_doc, a_breq_doc, a_breq_msg, b_breq, lambda v, base: pjrpc.BatchRequest.from_json(v)),
    'bresp': (c_bresp_doc, a_bresp_doc, a_bresp_msg, b_bresp,
              lambda v, base: pjrpc.BatchResponse.from_json(v, error_cls=base)),
}


def classify_exc(e):
    if isinstance(e, exceptions.DeserializationError):
        return 'Deser'
    if isinstance(e, exceptions.IdentityError):
        return 'Identity'
    return 'Other:' + type(e).__name__


SCRIBBLE = 'XSCRIBBLE_51c7'


def _scribble_value(v):
    if isinstance(v, list):
        v.append(SCRIBBLE)
    elif isinstance(v, dict):
        v[SCRIBBLE] = SCRIBBLE


def scribble(o):
    """what a receiver may do with a message it deserialised: edit its containers in place (a middleware appending an
    argument, a handler annotating error data).  Done AFTER the message was observed; messages deserialised later in this
    process must not show it (every message owns its containers - no shared default objects)"""
    try:
        if isinstance(o, pjrpc.Request):
            _scribble_value(o.params)
        elif isinstance(o, pjrpc.Response):
            if o.is_success:
                _scribble_value(o.result)
            else:
                scribble(o.error)
        elif isinstance(o, exceptions.JsonRpcError):
            if o.data is not UNSET:
                _scribble_value(o.data)
        elif isinstance(o, pjrpc.BatchRequest):
            for r in o:
                scribble(r)
        elif isinstance(o, pjrpc.BatchResponse):
            if o.is_error:
                scribble(o.error)
            else:
                for r in o:
                    scribble(r)
    except Exception:       # observing is over; a message that cannot be edited is not this driver's subject
        pass


def run(scn):
    mode, k = scn['kind'].split('_', 1)
    c_doc, a_doc, a_msg, build, parse = KINDS[k]
    base = CLASSES[scn['base']]
    ev = []
    if mode == 'rt':
        try:
            obj = build(scn['msg'])
        except AssertionError as e:       # the library refuses to construct this message
            return {'scn': scn, 'ev': ev, 'unconstructible': repr(e)}
        doc = obj.to_json()
        text = json.dumps(doc, cls=pjrpc.JSONEncoder)
        try:
            enc_same = same_json(json.loads(json.dumps(obj, cls=pjrpc.JSONEncoder)), json.loads(text))
        except (TypeError, ValueError):       # the library encoder cannot encode the message object itself
            enc_same = False
        ev.append({'ev': 'Ser', 'wire': a_doc(doc), 'enc_same': enc_same})
        value = json.loads(text)
    else:
        value = json.loads(json.dumps(c_doc(scn['wire'])))
    try:
        obj2 = parse(value, base)
    except Exception as e:
        ev.append({'ev': 'Parse', 'v': classify_exc(e), 'm': NA, 'eq': NA, 'printable': True})
        return {'scn': scn, 'ev': ev}
    # the library's own notion of equality between the message that was built and the one that came back, and str / repr
    eq = NA
    if mode == 'rt':
        try:
            eq = 'yes' if (obj2 == obj and not (obj2 != obj)) else 'no'
        except Exception as e:
            eq = 'raise:' + type(e).__name__
    try:
        printable = isinstance(str(obj2), str) and isinstance(repr(obj2), str)
    except Exception:
        printable = False
    ev.append({'ev': 'Parse', 'v': 'Ok', 'm': a_msg(obj2), 'eq': eq, 'printable': printable})
    try:
        ev.append({'ev': 'Reser', 'wire': a_doc(json.loads(json.dumps(obj2.to_json(), cls=pjrpc.JSONEncoder)))})
    except Exception as e:
        ev.append({'ev': 'ReserFail', 'exc': type(e).__name__})
    scribble(obj2)
    return {'scn': scn, 'ev': ev}


def main():
    if os.environ.get('VERIF_RANDOMIZE'):
        import jsonvals
        jsonvals.randomize(int(os.environ['VERIF_RANDOMIZE']) + len(sys.argv[1]) + hash(os.path.basename(sys.argv[1])) % 1000,
                           keep=('i1',))        # VerifScopedChild is registered for the integer 1: the tag i1 keeps its representative
    scns = json.load(open(sys.argv[1]))
    from _guard import guarded
    traces = [guarded(run)(s) for s in scns]
    json.dump(traces, open(sys.argv[2], 'w'))


if __name__ == '__main__':
    main()
