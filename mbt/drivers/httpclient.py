"""Driver for spec/HttpClient.tla: the real requests / httpx (sync + async) / aiohttp client backends against a scripted
aiohttp server on the loopback interface (runs in its own thread).   usage: httpclient.py SCENARIOS.json TRACES.json"""
import asyncio
import json
import logging
import sys
import threading

from aiohttp import web

import pjrpc
from pjrpc.common import exceptions

logging.disable(logging.CRITICAL)
SCRIPTS = {}
SEEN = {}


async def handle(request):
    key = request.match_info['key']
    s = SCRIPTS[key]
    body = await request.read()
    SEEN.setdefault(key, []).append((request.headers.get('Content-Type'), body))
    try:
        doc = json.loads(body)
    except ValueError:
        doc = None
    if s['body'] == 'drop' and len(SEEN[key]) > 1:
        # every request after the first one on this URL: take it and close the connection without an answer
        request.transport.abort()
        raise ConnectionResetError('scripted drop')
    reqs = doc if isinstance(doc, list) else [doc]
    out = []
    for r in reqs:
        if not isinstance(r, dict) or 'id' not in r:
            continue
        rid = 'someone-else' if s['body'] == 'wrong_id' else r['id']
        if s['body'] == 'error':
            out.append({'jsonrpc': '2.0', 'id': rid, 'error': {'code': 2001, 'message': 'scripted'}})
        else:
            out.append({'jsonrpc': '2.0', 'id': rid, 'result': 'r'})
    if s['body'] == 'empty':
        text = ''
    elif s['body'] == 'html':
        text = '<html>oops</html>'
    else:
        text = json.dumps(out if isinstance(doc, list) else (out[0] if out else {'jsonrpc': '2.0', 'id': None, 'result': 'r'}))
    headers = {}
    ct = s['ctype']
    if ct['base'] != 'missing':
        headers['Content-Type'] = ct['base'] + ('; charset=utf-8' if ct['variant'] == 'charset' else '')
    resp = web.Response(status=s['status'], body=text.encode('utf-8'), headers=headers)
    if ct['base'] == 'missing':
        resp.headers.pop('Content-Type', None)
    return resp


def start_server():
    ready = threading.Event()
    box = {}

    def run():
        loop = asyncio.new_event_loop()
        asyncio.set_event_loop(loop)
        app = web.Application()
        app.router.add_post('/{key}', handle)
        runner = web.AppRunner(app)
        loop.run_until_complete(runner.setup())
        site = web.TCPSite(runner, '127.0.0.1', 0)
        loop.run_until_complete(site.start())
        box['port'] = site._server.sockets[0].getsockname()[1]
        ready.set()
        loop.run_forever()
    t = threading.Thread(target=run, daemon=True)
    t.start()
    ready.wait(30)
    return box['port']


def classify(exc):
    import requests
    import httpx
    import aiohttp
    if isinstance(exc, (requests.HTTPError, httpx.HTTPStatusError, aiohttp.ClientResponseError)):
        return 'http_error'
    if isinstance(exc, (requests.ConnectionError, httpx.TransportError, aiohttp.ClientConnectionError, ConnectionError)):
        return 'conn_error'
    if isinstance(exc, exceptions.IdentityError):
        return 'identity'
    if isinstance(exc, (exceptions.DeserializationError, json.JSONDecodeError)):
        return 'deser'
    if isinstance(exc, exceptions.JsonRpcError):
        return 'rpc_error'
    return 'other:' + type(exc).__name__


def make_request(kind):
    if kind == 'batch':
        return pjrpc.BatchRequest(pjrpc.Request('m', [1], id=1), pjrpc.Request('n', {'a': 2}, id='x'))
    return pjrpc.Request('m', [1], id=None if kind == 'notification' else 1)


def run(n, scn_wrap, port, loop):
    s = scn_wrap['scn']
    key = 'k%d' % n
    SCRIPTS[key] = s
    url = 'http://127.0.0.1:%d/%s' % (port, key)
    req = make_request(s['req'])
    kw = dict(raise_for_status=s['raise'])

    warm = pjrpc.Request('warm', [0], id=77) if s['body'] == 'drop' else None

    def finish(resp):
        if resp is None:
            return 'nothing'
        r = resp.result          # raises the rpc error
        return 'value' if (r == 'r' or r == ('r', 'r')) else 'other_value'
    try:
        if s['backend'] == 'requests':
            from pjrpc.client.backend import requests as be
            c = be.Client(url, **kw)
            try:
                if warm is not None:
                    c.send(warm)
                o = finish(c.batch.send(req) if s['req'] == 'batch' else c.send(req))
            finally:
                c.close()
        elif s['backend'] == 'httpx_sync':
            from pjrpc.client.backend import httpx as be
            c = be.Client(url, **kw)
            try:
                if warm is not None:
                    c.send(warm)
                o = finish(c.batch.send(req) if s['req'] == 'batch' else c.send(req))
            finally:
                c.close()
        else:
            async def go():
                if s['backend'] == 'httpx_async':
                    from pjrpc.client.backend import httpx as be
                    c = be.AsyncClient(url, **kw)
                else:
                    from pjrpc.client.backend import aiohttp as be
                    c = be.Client(url, **kw)
                try:
                    if warm is not None:
                        await c.send(warm)
                    return await (c.batch.send(req) if s['req'] == 'batch' else c.send(req))
                finally:
                    await c.close()
            o = finish(loop.run_until_complete(go()))
    except BaseException as e:  # noqa
        o = classify(e)
    seen = SEEN.get(key, [])
    if warm is not None:
        seen = seen[1:]         # what the server saw of THIS request (the earlier, successful one is not counted)
    expected = json.loads(json.dumps(req.to_json()))
    ev = [{'ev': 'Posted', 'n': len(seen), 'ctype': (seen[0][0] or 'none') if seen else 'none',
           'body_ok': bool(seen) and json.loads(seen[0][1]) == expected},
          {'ev': 'Outcome', 'o': o}]
    return {'scn': scn_wrap, 'ev': ev}


if __name__ == '__main__':
    port = start_server()
    loop = asyncio.new_event_loop()
    out = [run(n, s, port, loop) for n, s in enumerate(json.load(open(sys.argv[1])))]
    json.dump(out, open(sys.argv[2], 'w'))
