"""Driver for spec/Validation.tla: generates a typed / schema-validated method per scenario, dispatches the abstract call,
records what the body received and the reply; plus the spec-sanity classification of every (type, value) pair.
usage: validation.py SCENARIOS.json TRACES.json"""
import enum
import inspect
import json
import zlib
import logging
import sys
from typing import Dict, List, Optional  # noqa: F401

import jsonschema
import pydantic

import pjrpc
from pjrpc.server import Dispatcher, ViewMixin
from pjrpc.server.validators import jsonschema as vjs
from pjrpc.server.validators import pydantic as vpd

logging.disable(logging.CRITICAL)
DEFAULT = 'DEFAULT-SENTINEL'
VALUES = {'i5': 5, 'i0': 0, 'im1': -1, 's_abc': 'abc', 's_5': '5', 's_x': 'x', 'true': True, 'null': None,
          'a_12': [1, 2], 'a_a': ['a'], 'o_k1': {'k': 1}, 'f1_5': 1.5, 'o_x1': {'x': 1}, 'a_ox1': [{'x': 1}]}
FRAG = {'int': {'type': 'integer'}, 'intmin0': {'type': 'integer', 'minimum': 0}, 'intmax0': {'type': 'integer', 'maximum': 0},
        'strenum': {'type': 'string', 'enum': ['abc', '5']}, 'bool': {'type': 'boolean'},
        'intlist': {'type': 'array', 'items': {'type': 'integer'}},
        'd4exmin0': {'type': 'integer', 'minimum': 0, 'exclusiveMinimum': True}}      # draft-04 syntax
DRAFT4 = 'http://json-schema.org/draft-04/schema#'
OLD_DIALECT = {'d4exmin0': DRAFT4}
class XModel(pydantic.BaseModel):
    x: int


class Choice(enum.Enum):
    abc = 'abc'
    five = '5'


ANN = {'int': int, 'str': str, 'bool': bool, 'optint': Optional[int], 'intlist': List[int], 'model': XModel, 'modellist': List[XModel],
       'float': float, 'dictint': Dict[str, int], 'enum': Choice}
ANN_SRC = {'int': 'int', 'str': 'str', 'bool': 'bool', 'optint': 'Optional[int]', 'intlist': 'List[int]', 'model': 'XModel',
           'modellist': 'List[XModel]', 'float': 'float', 'dictint': 'Dict[str, int]', 'enum': 'Choice'}


class Ctx:
    pass


CTX = Ctx()


def key(v):
    if isinstance(v, bool):
        return ('b', v)
    if isinstance(v, (list, dict)):
        return ('j', json.dumps(v, sort_keys=True))
    return (type(v).__name__, v)


REV = {key(v): k for k, v in VALUES.items()}


def a_val(v):
    if v is CTX:
        return 'CTX'
    if isinstance(v, pydantic.BaseModel) or (isinstance(v, list) and any(isinstance(x, pydantic.BaseModel) for x in v)):
        return 't_model' if isinstance(v, XModel) else ('t_modellist' if isinstance(v, list) and all(isinstance(x, XModel) for x in v) else 'other:model')
    if isinstance(v, str) and v == DEFAULT:
        return 'DEFAULT'
    if isinstance(v, enum.Enum):
        return 't_enum' if isinstance(v, Choice) else 'other:enum'
    if key(v) in REV:
        return REV[key(v)]
    if isinstance(v, XModel):
        return 't_model'
    if isinstance(v, list) and v and all(isinstance(x, XModel) for x in v):
        return 't_modellist'
    if isinstance(v, bool):
        return 't_bool'
    if isinstance(v, int):
        return 't_int'
    if isinstance(v, float):
        return 't_float'
    if isinstance(v, dict):
        return 't_dict'
    if isinstance(v, str):
        return 't_str'
    if isinstance(v, list):
        return 't_list'
    return 'other:%r' % (v,)


def sanity(s):
    cls = []
    for j, p in enumerate(s['params']):
        v = s['vals'][j] if j < len(s['vals']) else 'omit'
        if v == 'omit':
            cls.append('omit')
            continue
        val = VALUES[v]
        if s['validator'] == 'schema':
            try:
                frag = dict(FRAG[p['type']])
                if p['type'] in OLD_DIALECT:
                    frag['$schema'] = OLD_DIALECT[p['type']]
                jsonschema.validate(val, frag)
                cls.append('yes')
            except jsonschema.ValidationError:
                cls.append('no')
        else:
            ta = pydantic.TypeAdapter(ANN[p['type']])
            try:
                ta.validate_python(val, strict=True)
                cls.append('yes')
            except pydantic.ValidationError:
                try:
                    ta.validate_python(val)
                    cls.append('co')
                except pydantic.ValidationError:
                    cls.append('no')
    return cls


_SHARED = {}
DEFAULT_SCHEMA = {'type': 'object', 'properties': {'p1': FRAG['int']}, 'required': ['p1'], 'additionalProperties': False}


def shared(kind):
    """one validator object per kind for the whole process, like a module-level `validator = ...` in an application"""
    if kind not in _SHARED:
        if kind == 'schema':
            _SHARED[kind] = vjs.JsonSchemaValidator(schema=DEFAULT_SCHEMA)
        else:
            _SHARED[kind] = vpd.PydanticValidator(coerce=kind == 'pyd_coerce')
    return _SHARED[kind]


def run(scn):
    s = scn['scn']
    ev = [{'ev': 'Sanity', 'cls': sanity(s)}]
    names = ['p%d' % (j + 1) for j in range(len(s['params']))]
    is_schema = s['validator'] == 'schema'
    excl = {'dep': lambda name, ann, default: name == 'dep',
            'dep_ann': lambda name, ann, default: ann is inspect.Parameter.empty}.get(s['extra'])
    is_view = s.get('flavour') == 'view'
    # a view receives its context through the constructor: the designation may well be the name of a parameter of the method,
    # which stays an ordinary, validated client parameter (variant chosen by content)
    h = zlib.crc32(json.dumps(scn, sort_keys=True).encode())
    ctxname = 'p1' if (is_view and s['extra'] == 'ctx' and names and h % 2) else 'ctx'
    if s['vsrc'] != 'fresh':
        val = shared(s['validator'])
    elif is_schema:
        val = vjs.JsonSchemaValidator(exclude_param=excl)
    else:
        val = vpd.PydanticValidator(coerce=s['validator'] == 'pyd_coerce', exclude_param=excl)
    parts = []
    if is_view:
        parts.append('self')
    elif s['extra'] == 'ctx':
        parts.append('ctx')
    for n, p in zip(names, s['params']):
        ann = '' if is_schema else ': ' + ANN_SRC[p['type']]
        parts.append('%s%s%s' % (n, ann, (' = DEFAULT' if p['dflt'] else '')))
    if s['extra'] == 'dep':
        parts.append('dep' + ('' if is_schema else ': str') + ' = DEFAULT')
    if s['extra'] == 'dep_ann':
        parts.append('dep = DEFAULT')

    def log(loc):
        e = {'ev': 'Exec', 'p1': a_val(loc['p1']) if 'p1' in loc else 'na', 'p2': a_val(loc['p2']) if 'p2' in loc else 'na',
             'p3': a_val(loc['p3']) if 'p3' in loc else 'na',
             'extra': a_val(loc['ctx']) if 'ctx' in loc else (a_val(loc['dep']) if 'dep' in loc else
                                                              (a_val(loc['self'].ctx) if is_view and s['extra'] == 'ctx' else 'na'))}
        ev.append(e)
        return 'RET'
    ns = {'DEFAULT': DEFAULT, '_log': log, 'Optional': Optional, 'List': List, 'Dict': Dict, 'XModel': XModel, 'Choice': Choice}
    exec('def m(%s):\n    return _log(dict(locals()))\n' % ', '.join(parts), ns)
    m = ns['m']
    if is_schema:
        schema = {'type': 'object', 'properties': {n: FRAG[p['type']] for n, p in zip(names, s['params'])},
                  'required': [n for n, p in zip(names, s['params']) if not p['dflt'] or s.get('sreq')], 'additionalProperties': False}
        for p in s['params']:
            if p['type'] in OLD_DIALECT:
                schema['$schema'] = OLD_DIALECT[p['type']]
                if not schema['required']:
                    del schema['required']          # draft-04 does not allow an empty `required` array
        m = val.validate(m) if s['vsrc'] == 'shared_default' else val.validate(m, schema=schema)
    else:
        m = val.validate(m)
    d = Dispatcher()
    if is_view:
        class View(ViewMixin):
            def __init__(self, context=None):      # the library passes the context positionally, whatever it is called
                super().__init__()
                self.ctx = context
        View.m = m
        d.registry.view(View, context=ctxname if s['extra'] == 'ctx' else None)
    else:
        d.add(m, 'm', context='ctx' if s['extra'] == 'ctx' else None)
    provided = [(n, VALUES[v]) for n, v in zip(names, s['vals']) if v != 'omit']
    if s['passing'] == 'pos':
        params = [v for _, v in provided]
    else:
        params = dict(provided)
        if s['setextra']:
            params['ctx' if s['extra'] == 'ctx' else 'dep'] = 'client-supplied'
    if s['vsrc'] == 'shared_default':
        # history: a sibling method decorated by the SAME validator object with its own schema is called first
        def other(q):
            return q
        d.add(val.validate(other, schema={'type': 'object', 'properties': {'q': {'type': 'string'}}, 'required': ['q']}), 'other')
        d.dispatch(json.dumps({'jsonrpc': '2.0', 'id': 0, 'method': 'other', 'params': ['warm-up']}), context=CTX)
    try:
        ret = d.dispatch(json.dumps({'jsonrpc': '2.0', 'id': 1, 'method': 'm', 'params': params}), context=CTX)
    except BaseException as e:  # noqa
        ev.append({'ev': 'Raise', 'type': type(e).__name__})
        return {'scn': scn, 'ev': ev}
    doc = json.loads(ret[0])
    if 'result' in doc:
        ev.append({'ev': 'Reply', 'r': 'result' if doc['result'] == 'RET' else 'result_changed'})
    else:
        code = doc['error'].get('code')
        ev.append({'ev': 'Reply', 'r': 'c_m%d' % -code if isinstance(code, int) and code < 0 else 'code:%s' % code,
                   'data_encodable': 'data' in doc['error']})
    return {'scn': scn, 'ev': ev}


if __name__ == '__main__':
    from _guard import guarded
    json.dump([guarded(run)(s) for s in json.load(open(sys.argv[1]))], open(sys.argv[2], 'w'))
