"""Driver for spec/Mocker.tla: replays add / replace / remove / reset / call histories on a real PjRpcMocker patched over
a synchronous and over an asynchronous transport (two traces per scenario).
usage: mocker.py SCENARIOS.json TRACES.json"""
import asyncio
import json
import logging
import zlib
import os
import sys

sys.path.insert(0, os.path.dirname(os.path.abspath(__file__)))
import mocker_targets  # noqa: E402

import pjrpc  # noqa: E402
from pjrpc.client.integrations.pytest import PjRpcMocker  # noqa: E402

logging.disable(logging.CRITICAL)
IDS = {'i0': 0, 'i1': 1, 'i2': 2, 'i3': 3, 's_empty': ''}
RID = {(type(v).__name__, v): k for k, v in IDS.items()}
PARAMS = {'pos': [1, 'x'], 'named': {'a': 1, 'b': 'x'}}
E = ['e1', 'e2']
# the real httpx client backend as the patched transport: endpoints an URL library would normalise (host case, default port, space)
URLS = {'e1': 'http://Test-HOST.example:80/api v1', 'e2': 'http://test-host.example/other'}
REV_URLS = {v: k for k, v in URLS.items()}
M = ['m1', 'm2']


def a_reply(o):
    rid = RID.get((type(o.get('id')).__name__, o.get('id')), 'other:%r' % (o.get('id'),))
    if 'result' in o:
        r = o['result']
        if isinstance(r, str) and r.startswith('res_'):
            return {'id': rid, 'body': 'result', 'tag': int(r[4:])}
        if isinstance(r, str) and r.startswith('cb_'):
            return {'id': rid, 'body': 'callback', 'tag': int(r[3:])}
        return {'id': rid, 'body': 'other', 'tag': -1}
    code = (o.get('error') or {}).get('code')
    if code == -32601:
        return {'id': rid, 'body': 'mnf', 'tag': 0}
    if isinstance(code, int) and 1000 < code < 2000:
        return {'id': rid, 'body': 'error', 'tag': code - 1000}
    return {'id': rid, 'body': 'other', 'tag': -1}


def a_calls(mocker):
    out = {e: {m: [] for m in M} for e in E}
    for e, d in mocker.calls.items():
        e = REV_URLS.get(e, e)
        for (version, m), stub in d.items():
            if e in out and m in out[e]:
                for c in stub.call_args_list:
                    if list(c.args) == PARAMS['pos'] and not c.kwargs:
                        out[e][m].append('pos')
                    elif not c.args and c.kwargs == PARAMS['named']:
                        out[e][m].append('named')
                    else:
                        out[e][m].append('other')
    return out


def run(scn, kind, loop):
    if kind == 'httpx':
        target = 'pjrpc.client.backend.httpx.Client._request'
        ep = URLS.get
    else:
        target = 'mocker_targets.%s._request' % ('AsyncClient' if kind == 'async' else 'SyncClient')
        ep = lambda e: e        # noqa: E731
    mocker = PjRpcMocker(target, passthrough=scn['passthrough'])
    mocker.start()
    ev = []
    tag = [0]
    # re-entrant callbacks (variant by content): while it answers, a callback patch uses the mocker itself - a replace() at an
    # index nothing is at (fails, changes nothing) and, over the synchronous transport, a call to a method of its own endpoint
    # that is not patched (-32601, not recorded): neither changes the state the model keeps, both must come back
    nest_on = zlib.crc32(json.dumps(scn, sort_keys=True).encode()) // 4 % 2 == 1
    nest = []

    def reenter(e):
        try:
            mocker.replace(ep(e), 'm1', idx=7, result='never')
            nest.append('replaced')
        except (IndexError, KeyError):
            nest.append('error')
        if kind == 'sync':
            probe = json.dumps({'jsonrpc': '2.0', 'method': 'm3', 'id': 9})
            try:
                res = mocker_targets.SyncClient(e)._request(probe, False)
            except ConnectionRefusedError:
                nest.append('refused')      # the patch that is answering was the endpoint's last one and is used up already
                return
            if res == 'REAL-TRANSPORT':
                nest.append('passed')
                return
            doc = json.loads(res)
            nest.append('mnf' if (doc.get('error') or {}).get('code') == -32601 and doc.get('id') == 9 else 'other:%r' % (doc,))

    def patch_kwargs(op):
        if op.get('twin'):
            t = 99               # identically configured patches: one shared value
        else:
            tag[0] += 1
            t = tag[0]
        kw = {'once': op['once']}
        if op['kind'] == 'result':
            kw['result'] = 'res_%d' % t
        elif op['kind'] == 'error':
            kw['error'] = pjrpc.exc.JsonRpcError(code=1000 + t, message='patched')
        else:
            def cb(*a, _t=t, _e=op['e'], **k):
                if nest_on:
                    reenter(_e)
                return 'cb_%d' % _t
            kw['callback'] = cb
        return kw

    try:
        for op in scn['hist']:
            k, replies = 'ok', []
            del nest[:]
            try:
                if op['op'] == 'add':
                    mocker.add(ep(op['e']), op['m'], **patch_kwargs(op))
                elif op['op'] == 'replace':
                    kw = patch_kwargs(op)
                    try:
                        mocker.replace(ep(op['e']), op['m'], idx=op['idx'], **kw)
                    except (IndexError, KeyError):
                        tag[0] -= 1
                        raise
                elif op['op'] == 'remove':
                    mocker.remove(ep(op['e']), None if op['m'] == 'all' else op['m'])
                elif op['op'] == 'reset':
                    mocker.reset()
                else:
                    reqs = [{'jsonrpc': '2.0', 'method': r['m'], 'params': PARAMS[r['params']], 'id': IDS[r['id']]} for r in op['reqs']]
                    text = json.dumps(reqs if op['shape'] == 'batch' else reqs[0])
                    if kind == 'httpx':
                        from pjrpc.client.backend import httpx as httpx_backend
                        client = httpx_backend.Client(ep(op['e']))
                    else:
                        cls = mocker_targets.AsyncClient if kind == 'async' else mocker_targets.SyncClient
                        client = cls(op['e'])
                    try:
                        res = client._request(text, False)
                        if asyncio.iscoroutine(res):
                            res = loop.run_until_complete(res)
                    except ConnectionRefusedError:
                        k = 'refused'
                    else:
                        if res == 'REAL-TRANSPORT':
                            k = 'passed'
                        else:
                            doc = json.loads(res)
                            k = 'batch' if isinstance(doc, list) else 'single'
                            replies = [a_reply(o) for o in (doc if isinstance(doc, list) else [doc])]
            except (IndexError, KeyError):
                k = 'error'
            except BaseException as e:  # noqa
                k = 'raised:' + type(e).__name__
            ev.append({'ev': 'Op', 'op': op, 'k': k, 'replies': replies, 'calls': a_calls(mocker), 'nest': list(nest)})
    finally:
        mocker.stop()
    s = dict(scn)
    s['kind'] = kind
    s['nest'] = nest_on
    return {'scn': s, 'ev': ev}


def watched(scn, kind, loop, state):
    """a replay that does not come back (a callback waiting for a lock its own caller holds) is an observation - the event
    Hang, which no specification allows - not a failure of the machinery; nothing is replayed in this process afterwards"""
    import threading
    s = dict(scn, kind=kind, nest=False)
    if state['hung']:
        return {'scn': s, 'ev': [{'ev': 'NotRun'}]}
    box = []
    err = []

    def work():
        try:
            box.append(guarded(run)(scn, kind, loop))
        except BaseException as e:  # noqa
            err.append(e)
    th = threading.Thread(target=work, daemon=True)
    th.start()
    th.join(60)
    if th.is_alive():
        state['hung'] = True
        return {'scn': s, 'ev': [{'ev': 'Hang'}]}
    if err:
        raise err[0]
    return box[0]


if __name__ == '__main__':
    from _guard import guarded
    loop = asyncio.new_event_loop()
    out = []
    state = {'hung': False}
    for s in json.load(open(sys.argv[1])):
        out.append(watched(s, 'sync', loop, state))
        out.append(watched(s, 'async', loop, state))
        if not s['passthrough'] and zlib.crc32(json.dumps(s, sort_keys=True).encode()) % 4 == 0:
            out.append(watched(s, 'httpx', loop, state))      # the real transport would need a network: only where nothing is passed through
    json.dump(out, open(sys.argv[2], 'w'))
    sys.stdout.flush()
    if state['hung']:
        os._exit(0)         # a thread is still stuck inside the library
