"""Driver for spec/Registry.tla: replays registration histories on real MethodRegistry objects / a real dispatcher, then
probes the dispatcher with every registered name, names one edit away and private member names.
usage: registry.py SCENARIOS.json TRACES.json"""
import asyncio
import functools
import json
import zlib
import logging
import sys

import pjrpc
from pjrpc.server import AsyncDispatcher, Dispatcher, Method, MethodRegistry, ViewMixin
from pjrpc.server.dispatcher import ViewMethod

logging.disable(logging.CRITICAL)
LOG = []
PREFIX = {'r0': None, 'ra': 'a', 'rab': 'a.b'}


def f():
    LOG.append('f')
    return 'f'


def g():
    LOG.append('g')
    return 'g'


class V(ViewMixin):
    const = 5

    def get(self):
        LOG.append(type(self).__name__ + '_get')
        return 'get'

    def put(self):
        LOG.append(type(self).__name__ + '_put')
        return 'put'

    @functools.lru_cache(maxsize=1)         # a public callable that is not a plain function (a wrapper object)
    def memo(self):
        LOG.append(type(self).__name__ + '_memo')
        return 'memo'

    def _hid(self):
        LOG.append(type(self).__name__ + '__hid')
        return 'hid'

    def __magic__(self):
        LOG.append(type(self).__name__ + '___magic__')
        return 'magic'


class W(V):
    """a view derived from a view: exposes the inherited public callables and its own"""

    def extra(self):
        LOG.append('W_extra')
        return 'extra'


class Health:
    def ping(self):
        LOG.append('M_ping')
        return 'ping'


class M(ViewMixin, Health):
    """public handlers inherited from a plain base class listed after ViewMixin"""
    const = 6

    def own(self):
        LOG.append('M_own')
        return 'own'

    def _hid(self):
        LOG.append('M__hid')
        return 'hid'


VIEWS = {'V': V, 'W': W, 'M': M}
FN = {'f': f, 'g': g}


def target_of(method):
    if isinstance(method, ViewMethod):
        return method.view_cls.__name__ + '_' + method.method_name
    return {f: 'f', g: 'g'}.get(method.method, 'other')


def keys_of(reg):
    return [{'name': name.split('.'), 'target': target_of(m)} for name, m in reg.items()]


def variants(names):
    out = []
    for segs in names:
        out.append(segs)
        for i in range(len(segs)):
            out.append(segs[:i] + segs[i + 1:])                       # dropped segment (prefix or name)
            out.append(segs[:i] + [segs[i].upper()] + segs[i + 1:])   # case flip
            out.append(segs[:i] + [''] + segs[i:])                    # doubled dot
            if i + 1 < len(segs):
                out.append(segs[:i] + [segs[i] + segs[i + 1]] + segs[i + 2:])   # dropped dot
        out.append(segs + [''])                                      # trailing dot
        for priv in ('_hid', '__magic__', 'const', '__methods__', '__init__'):
            out.append(segs[:-1] + [priv])
    seen, res = set(), []
    for s in out:
        if s and tuple(s) not in seen:
            seen.add(tuple(s))
            res.append(s)
    return res


def run(scn, kind, loop, reuse=False, variant=0):
    """reuse: plain `add` registrations go through ONE decorator object per registry, obtained once (`rpc = registry.add()`)"""
    disp = AsyncDispatcher() if kind == 'async' else Dispatcher()
    regs = {r: MethodRegistry(prefix=p) for r, p in PREFIX.items()}
    regs['d'] = disp.registry
    decorators = {}
    ev = []
    for op in scn['hist']:
        r = op['r']
        if op['op'] == 'add':
            if reuse:
                if r not in decorators:
                    decorators[r] = regs[r].add()
                decorators[r](FN[op['fn']])
            elif variant == 1:
                # the same registration spelt add_methods(function): a plain function is added under its own name
                (disp if r == 'd' else regs[r]).add_methods(FN[op['fn']])
            elif r == 'd':
                disp.add(FN[op['fn']])
            else:
                regs[r].add(FN[op['fn']])
        elif op['op'] == 'addnamed':
            name = '.'.join(op['name'])
            if variant == 1 and r in ('d', 'r0'):
                # ... and add_methods(Method(function, name)) on a prefix-less registry
                (disp if r == 'd' else regs[r]).add_methods(Method(FN[op['fn']], name))
            elif r == 'd':
                disp.add(FN[op['fn']], name)
            else:
                regs[r].add(FN[op['fn']], name=name)
        elif op['op'] == 'view':
            vp = '.'.join(op['vp']) or None
            cls = VIEWS[op.get('cls', 'V')]
            if variant == 1 and not (r == 'd' and vp is None):
                regs[r].view(prefix=vp)(cls)            # the decorator form
            elif r == 'd' and vp is None:
                disp.view(cls)
            else:
                regs[r].view(cls, prefix=vp)
        else:
            if r == 'd':
                disp.add_methods(regs[op['o']])
            else:
                regs[r].merge(regs[op['o']])
        ev.append({'ev': 'Op', 'op': op, 'keys': {x: keys_of(regs[x]) for x in ('d', 'r0', 'ra', 'rab')}})
    names = [k['name'] for k in keys_of(regs['d'])]
    for segs in variants(names) + [['f'], ['get'], ['a', 'f'], ['_hid']]:
        del LOG[:]
        text = json.dumps({'jsonrpc': '2.0', 'id': 1, 'method': '.'.join(segs)})
        ret = loop.run_until_complete(disp.dispatch(text)) if kind == 'async' else disp.dispatch(text)
        doc = json.loads(ret[0])
        if 'error' in doc and doc['error'].get('code') == -32601 and not LOG:
            reached = 'none'
        elif 'result' in doc and len(LOG) == 1:
            reached = LOG[0]
        else:
            reached = 'odd:%s:%s' % (doc.get('error', {}).get('code'), LOG)
        ev.append({'ev': 'Probe', 'name': segs, 'reached': reached})
    s = dict(scn)
    s['kind'] = kind
    s['reuse'] = reuse
    s['variant'] = variant
    return {'scn': s, 'ev': ev}


if __name__ == '__main__':
    from _guard import guarded
    loop = asyncio.new_event_loop()
    out = []
    for i, s in enumerate(json.load(open(sys.argv[1]))):
        h = zlib.crc32(json.dumps(s, sort_keys=True).encode())        # variants by content, not by position
        out.append(guarded(run)(s, 'async' if h % 2 else 'sync', loop, reuse=(h // 2) % 4 == 1, variant=1 if (h // 2) % 4 == 2 else 0))
    json.dump(out, open(sys.argv[2], 'w'))
