"""Driver for C13 (b): N dispatches with a fresh context object each; after every dispatch: gc, count the context objects
still alive and the size of the validators' signature cache.   usage: retention.py SCENARIOS.json TRACES.json"""
import asyncio
import gc
import json
import logging
import sys
import weakref

import pjrpc
from pjrpc.server import AsyncDispatcher, Dispatcher, ViewMixin
from pjrpc.server import validators
from pjrpc.server.validators import jsonschema as vjs
from pjrpc.server.validators import pydantic as vpd

logging.disable(logging.CRITICAL)


class Ctx:
    """request context; instances are counted without creating per-request tracker objects"""
    alive = 0

    def __init__(self):
        Ctx.alive += 1

    def __del__(self):
        Ctx.alive -= 1


def build(flavour, kind):
    d = AsyncDispatcher() if kind == 'async' else Dispatcher()
    if flavour == 'func':
        def m(ctx, a):
            return a
        d.add(m, 'm', context='ctx')
    elif flavour == 'func0':
        # parameterless methods: one takes the context, its sibling (same empty client signature) does not
        def m(ctx):
            return 5 if isinstance(ctx, Ctx) else -1

        def pong():
            return 5
        d.add(m, 'm', context='ctx')
        d.add(pong, 'pong')
    elif flavour in ('view', 'view_ctx'):
        class V(ViewMixin):
            def __init__(self, context=None):
                super().__init__()
                self.context = context
                self.calls = 0
                Ctx.alive += 1          # view instances are request-scoped objects too

            def __del__(self):
                Ctx.alive -= 1

            def m(self, a):
                self.calls += 1         # state kept on the per-request instance
                return a if self.calls == 1 else -1
        d.registry.view(V, context='context' if flavour == 'view_ctx' else None)
    elif flavour in ('view_typed', 'view_schema'):
        val = vpd.PydanticValidator() if flavour == 'view_typed' else vjs.JsonSchemaValidator()

        class VV(ViewMixin):
            def __init__(self, context=None):
                super().__init__()
                self.context = context
                Ctx.alive += 1

            def __del__(self):
                Ctx.alive -= 1
        if flavour == 'view_typed':
            def m(self, a: int):
                return a
            VV.m = val.validate(m)
        else:
            def m(self, a):
                return a
            VV.m = val.validate(m, schema={'type': 'object', 'properties': {'a': {'type': 'integer'}}, 'required': ['a']})
        d.registry.view(VV, context='context')
    elif flavour == 'func_exc':
        def m(ctx, a):
            raise ValueError('boom %r' % (ctx,))
        d.add(m, 'm', context='ctx')
    elif flavour == 'schema':
        val = vjs.JsonSchemaValidator()

        @val.validate(schema={'type': 'object', 'properties': {'a': {'type': 'integer'}}, 'required': ['a']})
        def m(ctx, a):
            return a
        d.add(m, 'm', context='ctx')
    else:
        val = vpd.PydanticValidator()

        @val.validate
        def m(ctx, a: int):
            return a
        d.add(m, 'm', context='ctx')
    return d


def run(scn, loop):
    d = build(scn['flavour'], scn['kind'])
    text = json.dumps({'jsonrpc': '2.0', 'id': 1, 'method': 'm', 'params': [5]})
    if scn['flavour'] == 'func0':
        text = json.dumps([{'jsonrpc': '2.0', 'id': 1, 'method': 'm'}, {'jsonrpc': '2.0', 'id': 2, 'method': 'pong'}])
    prev = None
    Ctx.alive = 0
    ev = []
    for i in range(scn['n']):
        ctx = Ctx()
        ret = loop.run_until_complete(d.dispatch(text, context=ctx)) if scn['kind'] == 'async' else d.dispatch(text, context=ctx)
        doc = json.loads(ret[0]) if ret is not None else None
        if scn['flavour'] == 'func_exc':
            ok = doc is not None and doc.get('error', {}).get('code') == -32000 and 'data' not in doc['error']
        else:
            ok = doc is not None and all(x.get('result') == 5 for x in (doc if isinstance(doc, list) else [doc]))
        del doc
        del ctx, ret
        gc.collect()
        alive = Ctx.alive
        objs = len(gc.get_objects())
        # heap growth is judged in the second half of a long run only: warm-up of per-method caches and any BOUNDED
        # cache a change might introduce have saturated by then; what is left grows with the number of requests
        grew = scn['n'] >= 50 and i >= scn['n'] // 2 and objs > prev
        prev = objs
        ev.append({'ev': 'Served', 'alive': alive, 'grew': bool(grew), 'ok': ok})
    return {'scn': scn, 'ev': ev}


if __name__ == '__main__':
    loop = asyncio.new_event_loop()
    from _guard import guarded
    json.dump([guarded(run)(s, loop) for s in json.load(open(sys.argv[1]))], open(sys.argv[2], 'w'))
