"""Generic check runner: model check -> emit scenarios -> drive real code -> TLC trace validation -> verdict.

A check is a list of Stage objects.  The runner contains no property logic: the properties live in the
TLA+ modules (invariants / action properties for the model, TraceConstraint + trace actions for executions).
"""
import copy
import hashlib
import json
import os
import sys
import time

from . import harness as h


class Stage:
    def __init__(self, name, mc=None, emit=None, driver=None, trace=None, scn_filter=None, nontrivial=None,
                 extra_scenarios=None, mc_workers=h.NCPU, drive_env=None, selftest=True, post_traces=None,
                 drive_shards=h.NCPU, max_per_shard=8000, simulate=None, deviations=None, sanity_events=(), pairing=None, emit_kw=None, extra_emits=()):
        self.name = name
        self.mc = mc                    # (module, cfg) model-checked with the property invariants
        self.emit = emit                # (module, cfg) printing <<"SCN", json>>
        self.driver = driver            # drivers/<driver>.py
        self.trace = trace              # (module, cfg) trace specification
        self.scn_filter = scn_filter or (lambda s: True)
        self.nontrivial = nontrivial or (lambda t: len(t['ev']) >= 2)
        self.extra_scenarios = extra_scenarios   # callable(tier, seed) -> more scenarios (code -> spec direction)
        self.mc_workers = mc_workers
        self.drive_env = drive_env
        self.selftest = selftest
        self.post_traces = post_traces  # callable(traces) -> traces (e.g. drop unconstructible)
        self.drive_shards = drive_shards
        self.max_per_shard = max_per_shard
        self.simulate = simulate        # (module, cfg, 'num=..', depth) extra simulation run of the model
        self.deviations = deviations or {}   # deviation name -> trace cfg with that named deviation switched on
        self.emit_kw = emit_kw or {}    # extra run_tlc arguments for the emission run (simulate=, depth=, seed=)
        self.extra_emits = extra_emits  # further (module, cfg, kw) emission runs whose scenarios are added
        self.pairing = pairing          # (keyfn(scn) -> hashable, obsfn(trace) -> JSON-able): C11 pairing of the two halves
        self.sanity_events = set(sanity_events)  # events that cross-check the SPEC against Python itself (3.2)


def _digest(x):
    return hashlib.sha1(json.dumps(x, sort_keys=True).encode()).hexdigest()[:12]


def _corruptions(trace):
    """variants of an accepted trace with one logged field of one event replaced: all must be rejected"""
    out = []
    for i, e in enumerate(trace['ev']):
        for k, v in e.items():
            if k in ('ev', 'info'):
                continue
            t = copy.deepcopy(trace)
            if isinstance(v, str):
                t['ev'][i][k] = 'zz_corrupt'
            elif isinstance(v, bool):
                t['ev'][i][k] = not v
            elif isinstance(v, int):
                t['ev'][i][k] = v + 7
            else:
                continue
            t['selftest'] = '%d.%s' % (i, k)
            out.append(t)
            if len(out) >= 6:
                return out
    return out


def diagnose(stage, trace):
    """Name the failing clause of a rejected trace: re-run TLC on that single trace with the property invariants as
    INVARIANTs (instead of folded into the constraint).  Returns a short text; never changes a verdict."""
    import re
    import tempfile
    try:
        spec_dir = h.tlc.SPEC_DIR
        cfg = open(os.path.join(spec_dir, stage.trace[1])).read()
        m = re.search(r'^TraceConstraint\s*==(.*?)(?=^\S|\Z)', open(os.path.join(spec_dir, stage.trace[0] + '.tla')).read(), re.S | re.M)
        names = [n for n in re.findall(r'[A-Za-z_][A-Za-z_0-9]*', m.group(1) if m else '') if n != 'Progress']
        body = cfg.replace('CONSTRAINT TraceConstraint', 'CONSTRAINT Progress') + ''.join('INVARIANT %s\n' % n for n in names)
        d = tempfile.mkdtemp(prefix='diag_')
        cfgp = os.path.join(d, 'diag.cfg')
        open(cfgp, 'w').write(body)
        tf = os.path.join(d, 'trace.json')
        json.dump([trace], open(tf, 'w'))
        r = h.tlc.run_tlc(stage.trace[0], cfgp, workers=1, env={'TRACE_FILE': tf}, timeout=300)
        import shutil
        shutil.rmtree(d, ignore_errors=True)
        if r.violated:
            return 'property clause %s of %s is false in the state reached by the recorded events' % (', '.join(r.violated), stage.trace[0][:-5] + '.tla')
        if r.tagnums.get('REJ'):
            return 'no action of %s allows this event in the reached state (the recorded step is not a behaviour of the specification)' % (stage.trace[0][:-5] + '.tla')
        return 'accepted when the property clauses are not enforced (rejected by the conjunction of clauses)'
    except Exception as e:   # diagnostics only
        return 'diagnosis unavailable (%s)' % type(e).__name__


class Outcome:
    def __init__(self):
        self.states = 0
        self.transitions = 0
        self.traces = 0
        self.evaluations = 0
        self.nontrivial = set()
        self.samples = []
        self.rejected = []      # dicts: stage, scn, ev, matched, next
        self.notes = []
        self.coverage_actions = {}
        self.selftests = 0
        self.skipped = 0


def run_stage(stage, tier, seed, out, replay_scenarios=None):
    if stage.mc and replay_scenarios is None:
        r = h.model_check(stage.mc[0], stage.mc[1], workers=stage.mc_workers, coverage=(tier == 'thorough'))
        if r.coverage:
            never = sorted(a for a, (g, d) in r.coverage.items() if g == 0 and not a.startswith('Dev_'))
            out.notes.append('%s: spec actions taken in %s: %d of %d%s' % (stage.name, stage.mc[1], len(r.coverage) - len(never), len(r.coverage), (' (never taken in this configuration: %s)' % ', '.join(never)) if never else ''))
        if r.violated:
            raise h.Machinery('the MODEL %s/%s violates %s - the specification (intended design) is broken:\n%s'
                              % (stage.mc[0], stage.mc[1], r.violated, r.stdout[-3000:]))
        if r.rc != 0:
            raise h.Machinery('TLC rc=%s on %s/%s\n%s' % (r.rc, stage.mc[0], stage.mc[1], r.stdout[-3000:]))
        out.states += r.distinct
        out.transitions += r.generated
        out.notes.append('%s: TLC %s/%s %d generated / %d distinct states, depth %d, %.1fs' % (
            stage.name, stage.mc[0], stage.mc[1], r.generated, r.distinct, r.depth, r.wall_s))
    if stage.simulate and replay_scenarios is None:
        mod, cfg, spec_, depth = stage.simulate
        r = h.tlc.run_tlc(mod, cfg, workers=h.NCPU, simulate=spec_, depth=depth, seed=seed)
        if r.violated or r.errors:
            raise h.Machinery('simulation of the MODEL %s/%s failed: %s %s\n%s' % (mod, cfg, r.violated, r.errors[:3], r.stdout[-3000:]))
        out.transitions += r.generated
        out.notes.append('%s: TLC -simulate %s on %s/%s: %d states' % (stage.name, spec_, mod, cfg, r.generated))
    if not stage.driver:
        return
    if replay_scenarios is not None:
        scns = replay_scenarios
    else:
        scns = []
        if stage.emit:
            scns, r = h.emit(stage.emit[0], stage.emit[1], **stage.emit_kw)
            for mod, cfg, kw in stage.extra_emits:
                kw = dict(kw)
                if 'seed' in kw and kw['seed'] is None:
                    kw['seed'] = seed
                more, r2 = h.emit(mod, cfg, **kw)
                out.transitions += r2.generated
                out.notes.append('%s: TLC %s on %s/%s emitted %d scenarios' % (stage.name, kw.get('simulate', ''), mod, cfg, len(more)))
                scns = scns + more
            scns = [s for s in scns if stage.scn_filter(s)]
            if not scns:
                raise h.Machinery('stage %s: the model emitted no scenario (vacuous)' % stage.name)
        if stage.extra_scenarios:
            scns = scns + list(stage.extra_scenarios(tier, seed))
    traces = h.drive(stage.driver, scns, env_extra=stage.drive_env, shards=stage.drive_shards)
    if stage.post_traces:
        before = len(traces)
        traces = stage.post_traces(traces)
        out.skipped += before - len(traces)
    ntr = len(traces)
    probes = []
    if stage.selftest and replay_scenarios is None:
        for t in traces:
            if t['ev'] and stage.nontrivial(t):
                probes = _corruptions(t)
                if probes:
                    break
    rejected, st = h.validate(stage.trace[0], stage.trace[1], traces + probes, max_per_shard=stage.max_per_shard)
    out.states += st['distinct']
    out.transitions += st['generated']
    rejidx = dict(rejected)
    if probes:
        # binding self-test: an accepted trace with one field corrupted must be rejected, and the intact one accepted
        bad = [p['selftest'] for k, p in enumerate(probes) if (ntr + k) not in rejidx]
        if bad:
            raise h.Machinery('stage %s: corrupted trace fields %s were ACCEPTED by %s - the trace spec does not bind them'
                              % (stage.name, bad, stage.trace[0]))
        out.selftests += len(probes)
    out.traces += ntr
    out.evaluations += ntr
    for i, t in enumerate(traces):
        if stage.nontrivial(t) and i not in rejidx:
            out.nontrivial.add(_digest(t['scn']))
    for t in traces[:: max(1, ntr // 3)][:3]:
        out.samples.append({'stage': stage.name, 'scenario': t['scn'], 'events': t['ev'][:12]})
    rej_real = [(i, m) for i, m in sorted(rejected) if i < ntr]
    for i, matched in rej_real:
        nxt = traces[i]['ev'][matched] if matched < len(traces[i]['ev']) else None
        if nxt and nxt.get('ev') in stage.sanity_events:
            raise h.Machinery('stage %s: spec-sanity event %s disagrees with the specification (a transcription error '
                              'of the spec, not a finding): %s' % (stage.name, nxt.get('ev'), json.dumps(traces[i])[:1500]))
    # second pass (DESIGN section 8): re-validate rejected traces with a LISTED known deviation switched on
    explained = {}
    listed = {f.get('deviation') for f in h.load_findings().get('known', []) if f.get('deviation')}
    for name, cfg in stage.deviations.items():
        if name not in listed or not rej_real:
            continue
        todo = [(i, m) for i, m in rej_real if i not in explained]
        rej2, st2 = h.validate(stage.trace[0], cfg, [traces[i] for i, _ in todo], max_per_shard=stage.max_per_shard)
        still = {todo[k][0] for k, _ in rej2}
        for i, _ in todo:
            if i not in still:
                explained[i] = name
        out.states += st2['distinct']
        out.transitions += st2['generated']
    for i, matched in rej_real:
        t = traces[i]
        out.rejected.append({'stage': stage.name, 'scn': t['scn'], 'ev': t['ev'], 'matched': matched,
                             'next': t['ev'][matched] if matched < len(t['ev']) else None,
                             'deviation': explained.get(i), 'stage_obj': stage})
    if stage.pairing:
        keyfn, obsfn = stage.pairing
        groups = {}
        for t in traces:
            kk = keyfn(t['scn'])
            if kk is not None:
                groups.setdefault(json.dumps(kk, sort_keys=True), []).append(t)
        pairs = []
        for key, ts in groups.items():
            ref = ts[0]
            for other in ts[1:]:
                pairs.append({'scn': {'key': json.loads(key), 'a': ref['scn'], 'b': other['scn']},
                              'ev': [{'ev': 'Pair', 'a': json.dumps(obsfn(ref), sort_keys=True),
                                      'b': json.dumps(obsfn(other), sort_keys=True)}]})
        if not pairs:
            raise h.Machinery('stage %s: no pairs of halves were formed' % stage.name)
        prej, pst = h.validate('PairTrace', 'PairTrace.cfg', pairs, max_per_shard=stage.max_per_shard)
        out.states += pst['distinct']
        out.transitions += pst['generated']
        out.traces += len(pairs)
        out.pairs = getattr(out, 'pairs', 0) + len(pairs)
        for i, matched in prej:
            pr = pairs[i]
            out.rejected.append({'stage': stage.name + '_pair', 'scn': pr['scn'], 'ev': pr['ev'], 'matched': matched,
                                 'next': pr['ev'][0], 'deviation': None})
        out.notes.append('%s: %d pairs of halves compared by PairTrace, %d differ' % (stage.name, len(pairs), len(prej)))
    out.notes.append('%s: %d scenarios driven, %d traces validated by %s (%d TLC states), %d rejected' % (
        stage.name, len(scns), ntr, stage.trace[0], st['distinct'], len([1 for i, _ in rejected if i < ntr])))


def finish(prop, tier, seed, out, t0, rule, assumptions, exhaustive, extra_cov=None, also_findings_of=()):
    """classify rejections against known findings, print verdict lines, write evidence, return exit code"""
    findings = [f for f in h.load_findings().get('known', []) if f['property'] == prop or f['property'] in also_findings_of]
    known_hit = {}
    violations = []
    for r in out.rejected:
        view = {'stage': r['stage'], 'scn': r['scn'], 'next': r['next'] or {}}
        hit = None
        for f in findings:
            if f.get('deviation'):
                if r.get('deviation') == f['deviation']:
                    hit = f
                    break
            elif h.match(f['pattern'], view):
                hit = f
                break
        if hit:
            known_hit.setdefault(hit['id'], [hit, 0])[1] += 1
        else:
            violations.append(r)
    for fid, (f, n) in sorted(known_hit.items()):
        print('KNOWN-FINDING: property=%s %s (%s; %d scenario(s) this run)' % (prop, f['what'], fid, n))
    seen = set()
    nviol = 0
    import shutil
    shutil.rmtree(os.path.join(h.OUT, 'replays', prop), ignore_errors=True)
    for r in violations:
        key = _digest([r['stage'], r['scn']])
        if key in seen:
            continue
        seen.add(key)
        nviol += 1
        if nviol <= 25:
            path = h.save_replay(prop, '%s_%s' % (r['stage'], key), {k: v for k, v in r.items() if k != 'stage_obj'})
            print('VIOLATION property=%s replay=%s' % (prop, path))
            nxt = json.dumps(r['next'])[:300] if r['next'] else 'end of trace (an invariant failed in the last state)'
            print('  stage=%s matched %d/%d events; first event the specification does not allow: %s' % (
                r['stage'], r['matched'], len(r['ev']), nxt))
            if nviol <= 3 and r.get('stage_obj') is not None:
                print('  diagnosis: %s' % diagnose(r['stage_obj'], {'scn': r['scn'], 'ev': r['ev']}))
    if nviol > 25:
        print('  ... and %d more violating scenarios (not written out)' % (nviol - 25))
    cov = {'states': out.states, 'transitions': out.transitions, 'traces_validated_against_impl': out.traces,
           'samples': out.samples[:6], 'evaluations': out.evaluations, 'distinct_nontrivial': len(out.nontrivial),
           'rule': rule, 'exhaustive': exhaustive, 'binding_selftests_rejected': out.selftests,
           'known_findings_hit': {k: v[1] for k, v in known_hit.items()}, 'notes': out.notes,
           'scenarios_skipped_unconstructible': out.skipped}
    if extra_cov:
        cov.update(extra_cov)
    h.write_evidence(prop, tier, seed, cov, time.time() - t0, nviol, assumptions)
    for n in out.notes:
        print('  ' + n)
    print('%s %s: %d traces validated, %d violation(s), %d known finding(s), %.1fs' % (
        prop, tier, out.traces, nviol, len(known_hit), time.time() - t0))
    return 1 if nviol else 0
