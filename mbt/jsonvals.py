"""Concretisation of the abstract JSON alphabet of spec/JsonValues.tla (and its inverse).

This is the only place where a tag becomes a concrete value.  No property logic here.
"""
import json

ABSENT = 'absent'
NA = 'na'

_DEEP_ARR = [1, [2, [3, [4, {"k": [None, True, 1.5, "é"]}]]]]
def _nest(n):
    v = 'bottom'
    for _ in range(n):
        v = [v]
    return v


_DEEP64 = [1, _nest(63)]        # the params array itself is level 1
_DEEP_OBJ = {"a": {"b": {"c": [1, {"d": None}], "e": ""}}, "z": [[], {}]}

CONCRETE = {
    'null': None, 'true': True, 'false': False,
    'i0': 0, 'i1': 1, 'im1': -1, 'i2': 2, 'i3': 3, 'ibig': 2 ** 63 + 1,
    'f1_0': 1.0, 'f1_5': 1.5, 'f2_0': 2.0,
    's_empty': '', 's_a': 'a', 's_b': 'b', 's_1': '1', 's_v20': '2.0', 's_v10': '1.0',
    's_esc': 'q"\\\n\t\u0000\u001fé中\U0001F600/',
    'a_empty': [], 'a_1': [1], 'a_deep': _DEEP_ARR, 'a_deep64': _DEEP64,
    'o_empty': {}, 'o_a': {'a': 1}, 'o_deep': _DEEP_OBJ,
    'm_ok': 'ok', 'm_one': 'one', 'm_perr': 'perr', 'm_exc': 'exc', 'm_unk': 'nope', 'm_int': 'int',
    'mw_short': 'mw_short', 'mw_rewritten': 'mw_rewritten',
    'r_none': {'a': None, 'b': None}, 'r_a1': {'a': 1, 'b': None}, 'r_deep': {'a': 1, 'b': _DEEP_ARR[1]}, 'r_deep64': {'a': 1, 'b': _DEEP64[1]},
    'r_one_a1': {'a': 1, 'only': 'one'},
    'c_m32700': -32700, 'c_m32600': -32600, 'c_m32601': -32601, 'c_m32602': -32602,
    'c_m32603': -32603, 'c_m32000': -32000, 'c_m32050': -32050, 'c_2001': 2001, 'c_2002': 2002,
}


def _key(v):
    # type-exact key: True != 1 != 1.0
    if isinstance(v, bool):
        return ('bool', v)
    if isinstance(v, int):
        return ('int', v)
    if isinstance(v, float):
        return ('float', repr(v))
    if isinstance(v, str):
        return ('str', v)
    if v is None:
        return ('null',)
    if isinstance(v, (list, tuple)):
        return ('arr',) + tuple(_key(x) for x in v)
    if isinstance(v, dict):
        return ('obj',) + tuple(sorted((k, _key(x)) for k, x in v.items()))
    return ('other', type(v).__name__, repr(v))


_REVERSE = {}
for _t, _v in CONCRETE.items():
    _REVERSE.setdefault(_key(_v), _t)


def conc(tag):
    import copy
    return copy.deepcopy(CONCRETE[tag])


def abst(value):
    """value -> tag; values outside the alphabet become 'other:<type>' (never equal to a spec tag)."""
    return _REVERSE.get(_key(value), 'other:' + type(value).__name__)


def same_json(a, b):
    """structural, type-exact JSON equality (tuples == lists)"""
    return _key(a) == _key(b)


def randomize(seed, keep=()):
    """Thorough tier: replace the representative of every class whose CONTENT no rule inspects by a random member of the
    same class (ids, strings, big integers, floats, nested payloads), keeping the relations the specification relies on
    (distinctness, "1" next to 1, truthiness, JSON type, key 'a' of the named-params object)."""
    import random
    import string
    rnd = random.Random(seed)

    def rstr(n=None, alphabet=None):
        alphabet = alphabet or (string.ascii_letters + string.digits + ' _-./:;!?\u00e9\u4e2d\u0416\U0001F600"\\\n\t')
        return ''.join(rnd.choice(alphabet) for _ in range(n or rnd.randint(1, 12)))

    def rjson(depth=0):
        k = rnd.randint(0, 7 if depth < 3 else 4)
        if k == 0:
            return None
        if k == 1:
            return rnd.choice([True, False])
        if k == 2:
            return rnd.randint(-10 ** rnd.randint(1, 30), 10 ** rnd.randint(1, 30))
        if k == 3:
            return rnd.choice([0.5, -1.25, 1e-7, 3.0e20, 12345.678])
        if k == 4:
            return rstr()
        if k in (5, 6):
            return [rjson(depth + 1) for _ in range(rnd.randint(0, 3))]
        return {rstr(rnd.randint(1, 5)): rjson(depth + 1) for _ in range(rnd.randint(0, 3))}
    ints = rnd.sample(range(2, 10 ** 6), 3)
    new = {
        'i1': ints[0], 'i2': ints[1], 'i3': ints[2], 'im1': -rnd.randint(1, 10 ** 9),
        'ibig': rnd.choice([1, -1]) * (2 ** 63 + rnd.randint(1, 2 ** 70)),
        'f1_5': rnd.choice([1.5, -0.25, 2.5e10, 1e-3]),
        's_a': 'a' + rstr(rnd.randint(0, 6), string.ascii_letters), 's_b': 'b' + rstr(rnd.randint(0, 6), string.ascii_letters),
        's_esc': rstr(rnd.randint(3, 20)) + '"\\\n\u0000\U0001F600',
        'a_deep': [1, [rjson(), [rjson()]]],
    }
    for k in keep:          # representatives the caller's fixtures depend on (e.g. an error class registered for the code 1)
        new.pop(k, None)
    new['s_1'] = str(new.get('i1', CONCRETE['i1']))
    od = {'a': rjson(1) or {'k': 1}, 'z': rjson(1)}
    new['o_deep'] = od
    CONCRETE.update(new)
    CONCRETE['r_deep'] = {'a': 1, 'b': CONCRETE['a_deep'][1]}
    _REVERSE.clear()
    for t, v in CONCRETE.items():
        _REVERSE.setdefault(_key(v), t)
    if len(_REVERSE) < len({k for k in CONCRETE if not k.startswith(('m_', 'mw_'))}) - 2:
        raise RuntimeError('randomised representatives collide')
