"""Concretisation of the abstract JSON alphabet of spec/JsonValues.tla (and its inverse).

This is the only place where a tag becomes a concrete value.  No property logic here.
"""
import json

ABSENT = 'absent'
NA = 'na'

_DEEP_ARR = [1, [2, [3, [4, {"k": [None, True, 1.5, "é"]}]]]]
_DEEP_OBJ = {"a": {"b": {"c": [1, {"d": None}], "e": ""}}, "z": [[], {}]}

CONCRETE = {
    'null': None, 'true': True, 'false': False,
    'i0': 0, 'i1': 1, 'im1': -1, 'i2': 2, 'i3': 3, 'ibig': 2 ** 63 + 1,
    'f1_0': 1.0, 'f1_5': 1.5, 'f2_0': 2.0,
    's_empty': '', 's_a': 'a', 's_b': 'b', 's_1': '1', 's_v20': '2.0', 's_v10': '1.0',
    's_esc': 'q"\\\n\t\u0000\u001fé中\U0001F600/',
    'a_empty': [], 'a_1': [1], 'a_deep': _DEEP_ARR,
    'o_empty': {}, 'o_a': {'a': 1}, 'o_deep': _DEEP_OBJ,
    'm_ok': 'ok', 'm_one': 'one', 'm_perr': 'perr', 'm_exc': 'exc', 'm_unk': 'nope',
    'mw_short': 'mw_short', 'mw_rewritten': 'mw_rewritten',
    'r_none': {'a': None, 'b': None}, 'r_a1': {'a': 1, 'b': None}, 'r_deep': {'a': 1, 'b': _DEEP_ARR[1]},
    'r_one_a1': {'a': 1, 'only': 'one'},
    'c_m32700': -32700, 'c_m32600': -32600, 'c_m32601': -32601, 'c_m32602': -32602,
    'c_m32603': -32603, 'c_m32000': -32000, 'c_m32050': -32050, 'c_2001': 2001,
}


def _key(v):
    # type-exact key: True != 1 != 1.0
    if isinstance(v, bool):
        return ('bool', v)
    if isinstance(v, int):
        return ('int', v)
    if isinstance(v, float):
        return ('float', repr(v))
    if isinstance(v, str):
        return ('str', v)
    if v is None:
        return ('null',)
    if isinstance(v, (list, tuple)):
        return ('arr',) + tuple(_key(x) for x in v)
    if isinstance(v, dict):
        return ('obj',) + tuple(sorted((k, _key(x)) for k, x in v.items()))
    return ('other', type(v).__name__, repr(v))


_REVERSE = {}
for _t, _v in CONCRETE.items():
    _REVERSE.setdefault(_key(_v), _t)


def conc(tag):
    import copy
    return copy.deepcopy(CONCRETE[tag])


def abst(value):
    """value -> tag; values outside the alphabet become 'other:<type>' (never equal to a spec tag)."""
    return _REVERSE.get(_key(value), 'other:' + type(value).__name__)


def same_json(a, b):
    """structural, type-exact JSON equality (tuples == lists)"""
    return _key(a) == _key(b)
