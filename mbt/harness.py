"""Generic spec -> code -> spec loop shared by all checks.  No property logic here.

  model_check()   TLC on M with the property invariants            (design correctness)
  emit()          TLC prints abstract scenarios                    (spec -> code)
  drive()         drivers/<x>.py executes them on the real pjrpc   (fresh interpreter on the working tree)
  validate()      TLC accepts / rejects every recorded trace       (code -> spec)
"""
import concurrent.futures as cf
import json
import os
import shutil
import subprocess
import sys
import tempfile
import time

from . import tlc

VERIF = os.path.dirname(os.path.dirname(os.path.abspath(__file__)))
REPO = os.environ.get('VERIF_REPO_DIR', '/repo')
OUT = os.environ.get('VERIF_OUT_DIR', VERIF)      # evidence/ and replays/ live here (scratch dir for mutant runs)
VENV_PY = '/venv/bin/python'
NCPU = 16


class Machinery(Exception):
    """the machinery itself failed (exit 2, never a VIOLATION)"""


def scratch():
    return tempfile.mkdtemp(prefix='pjrpc_verif_')


def model_check(module, cfg, workers=NCPU, coverage=False, timeout=3600, **kw):
    r = tlc.run_tlc(module, cfg, workers=workers, coverage=coverage, timeout=timeout, **kw)
    if r.errors and not r.violated:
        raise Machinery('TLC failed on %s/%s: %s\n%s' % (module, cfg, r.errors[:3], r.stdout[-3000:]))
    return r


def emit(module, cfg, tag='SCN', timeout=3600, **kw):
    r = tlc.run_tlc(module, cfg, workers=1, timeout=timeout, **kw)
    if r.errors or r.violated or r.rc != 0:
        raise Machinery('scenario emission failed on %s/%s: %s %s\n%s' % (module, cfg, r.errors[:3], r.violated, r.stdout[-3000:]))
    return r.tagged.get(tag, []), r


def _chunks(xs, n):
    k = max(1, (len(xs) + n - 1) // n)
    return [xs[i:i + k] for i in range(0, len(xs), k)]


def _drive_one(driver, scns, work, idx, env_extra, timeout):
    sp = os.path.join(work, 'scn_%d.json' % idx)
    tp = os.path.join(work, 'trc_%d.json' % idx)
    json.dump(scns, open(sp, 'w'))
    env = dict(os.environ)
    env.update({'PYTHONPATH': REPO, 'PYTHONDONTWRITEBYTECODE': '1', 'PYTHONHASHSEED': '0', 'PJRPC_VERIF': '1'})
    env.update(env_extra or {})
    cmd = [VENV_PY]
    if os.environ.get('VERIF_COVERAGE'):
        # tooling only (tools/coverage_report.py): which lines of pjrpc do the drivers execute at all
        cmd += ['-m', 'coverage', 'run', '--parallel-mode', '--branch', '--source', os.path.join(REPO, 'pjrpc'),
                '--data-file', os.path.join(os.environ['VERIF_COVERAGE'], '.coverage')]
    p = subprocess.run(cmd + [os.path.join(VERIF, 'mbt', 'drivers', driver + '.py'), sp, tp], env=env,
                       stdout=subprocess.PIPE, stderr=subprocess.PIPE, text=True, timeout=timeout, cwd=work)
    if p.returncode != 0 or not os.path.exists(tp):
        raise Machinery('driver %s failed (rc=%s): %s' % (driver, p.returncode, p.stderr[-3000:]))
    return json.load(open(tp))


def drive(driver, scenarios, shards=NCPU, env_extra=None, timeout=3600):
    """Run the driver over the scenarios in `shards` fresh interpreters; returns traces in scenario order."""
    if not scenarios:
        return []
    work = scratch()
    try:
        parts = _chunks(scenarios, shards)
        with cf.ThreadPoolExecutor(len(parts)) as ex:
            futs = [ex.submit(_drive_one, driver, part, work, i, env_extra, timeout) for i, part in enumerate(parts)]
            out = []
            for f in futs:
                out.extend(f.result())
        return out
    finally:
        shutil.rmtree(work, ignore_errors=True)


def _no_nulls(x):
    """TLC's JsonDeserialize cannot read the JSON value null: a None that a (changed) library put into a recorded field becomes
    the string "<null>" - a value no specification expects, so the trace is rejected instead of the validation failing to run"""
    if x is None:
        return '<null>'
    if isinstance(x, dict):
        return {k: _no_nulls(v) for k, v in x.items()}
    if isinstance(x, (list, tuple)):
        return [_no_nulls(v) for v in x]
    return x


def _validate_one(module, cfg, traces, work, idx, timeout, env_extra):
    tf = os.path.join(work, 'traces_%d.json' % idx)
    json.dump([dict(t, **{k: _no_nulls(v) for k, v in t.items() if k != 'scn'}) for t in traces], open(tf, 'w'))
    env = {'TRACE_FILE': tf}
    env.update(env_extra or {})
    r = tlc.run_tlc(module, cfg, workers=1, env=env, timeout=timeout)
    n = [t for t in r.tagnums.get('VALIDATED', [])]
    if r.errors or r.violated or r.rc != 0 or not n or n[-1][0] != len(traces):
        raise Machinery('trace validation failed to run on %s/%s: rc=%s %s %s\n%s' % (
            module, cfg, r.rc, r.errors[:3], r.violated, r.stdout[-4000:]))
    rej = [(t[0] - 1, t[1]) for t in r.tagnums.get('REJ', [])]     # (index in shard, reached l)
    return rej, r


def validate(module, cfg, traces, shards=NCPU, max_per_shard=8000, timeout=3600, env_extra=None):
    """Returns (rejected, stats): rejected = list of (trace index, number of events matched)."""
    if not traces:
        return [], {'generated': 0, 'distinct': 0, 'wall_s': 0.0}
    nshards = max(min(shards, len(traces)), (len(traces) + max_per_shard - 1) // max_per_shard)
    parts = _chunks(list(enumerate(traces)), nshards)
    work = scratch()
    t0 = time.time()
    try:
        with cf.ThreadPoolExecutor(min(NCPU, len(parts))) as ex:
            futs = [ex.submit(_validate_one, module, cfg, [t for _, t in part], work, i, timeout, env_extra)
                    for i, part in enumerate(parts)]
            rejected, gen, dist = [], 0, 0
            for part, f in zip(parts, futs):
                rej, r = f.result()
                gen += r.generated
                dist += r.distinct
                for local, reached in rej:
                    rejected.append((part[local][0], max(0, reached - 1)))
        return rejected, {'generated': gen, 'distinct': dist, 'wall_s': time.time() - t0}
    finally:
        shutil.rmtree(work, ignore_errors=True)


# ------------------------------------------------------------------ evidence / findings / verdict output
def load_findings():
    p = os.path.join(VERIF, 'known_findings.json')
    if not os.path.exists(p):
        return {'known': [], 'fixed': []}
    return json.load(open(p))


def match(pattern, obj):
    """pattern is a (nested) dict whose leaves must equal the corresponding leaves of obj;
    a list leaf means 'one of'; the key '*any*' in a dict matches if some element of a list obj matches."""
    if isinstance(pattern, dict):
        if not isinstance(obj, dict):
            return False
        for k, v in pattern.items():
            if k == '*any*':
                continue
            if k not in obj or not match(v, obj[k]):
                return False
        return True
    if isinstance(pattern, list):
        return any(match(p, obj) for p in pattern)
    return pattern == obj


def write_evidence(prop, tier, seed, coverage, wall_s, violations, assumptions, level='model_checking'):
    os.makedirs(os.path.join(OUT, 'evidence'), exist_ok=True)
    ev = {'property_id': prop, 'tier': tier, 'seed': seed, 'level': level, 'coverage': coverage,
          'assumptions': assumptions, 'wall_s': round(wall_s, 2), 'violations': violations}
    with open(os.path.join(OUT, 'evidence', prop + '.json'), 'w') as f:
        json.dump(ev, f, indent=1, sort_keys=True)
    return ev


def save_replay(prop, name, payload):
    d = os.path.join(OUT, 'replays', prop)
    os.makedirs(d, exist_ok=True)
    p = os.path.join(d, name + '.json')
    json.dump(payload, open(p, 'w'), indent=1, sort_keys=True)
    return p
